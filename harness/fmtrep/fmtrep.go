// Package fmtrep replays the Formatter decision table on the real JSON formatters
// and Filter, decoding the stored line, and stresses Event.FormattedAs/Format.
package fmtrep

import (
	"bufio"
	"bytes"
	"context"
	"encoding/json"
	"errors"
	"fmt"
	"math"
	"math/rand"
	"os"
	"reflect"
	"runtime"
	"strings"
	"sync"
	"sync/atomic"
	"time"

	"github.com/hashicorp/eventlogger"
)

type Vec struct {
	X struct {
		Node    string `json:"node"`
		Payload string `json:"payload"`
		Type    string `json:"type"`
		Pred    string `json:"pred"`
	} `json:"x"`
	Exp struct {
		Res    string `json:"res"`
		Stored bool   `json:"stored"`
	} `json:"exp"`
}

type Mismatch struct {
	What     string      `json:"what"`
	Vector   interface{} `json:"vector"`
	Expected interface{} `json:"expected"`
	Observed interface{} `json:"observed"`
}

type Report struct {
	Vectors    int           `json:"vectors"`
	Runs       int           `json:"runs"`
	Nontrivial int           `json:"distinct_nontrivial"`
	MismatchN  int           `json:"mismatch_count"`
	Mismatches []Mismatch    `json:"mismatches"`
	Samples    []interface{} `json:"samples"`
}

func (r *Report) mm(m Mismatch) {
	r.MismatchN++
	if len(r.Mismatches) < 40 {
		r.Mismatches = append(r.Mismatches, m)
	}
}

type st struct {
	A string
	B int64
	C []float64 `json:"c,omitempty"`
	D map[string]string
	E *st `json:"e,omitempty"`
}

func rstr(rng *rand.Rand, mode int) string {
	n := rng.Intn(24)
	b := make([]byte, n)
	for i := range b {
		switch mode {
		case 0:
			b[i] = byte('a' + rng.Intn(26))
		case 1:
			b[i] = byte(rng.Intn(0x20)) // control characters incl. \n \t \x00
		default:
			b[i] = byte(0x80 + rng.Intn(0x80)) // invalid UTF-8
		}
	}
	if mode == 1 {
		return "q\"\\\n" + string(b) + " <>&"
	}
	return string(b)
}

// member builds a random member of the payload class, and an identical second copy (the snapshot).
func member(class string, rng *rand.Rand) (interface{}, interface{}) {
	seed := rng.Int63()
	mk := func() interface{} {
		r := rand.New(rand.NewSource(seed))
		switch class {
		case "null":
			return nil
		case "bool":
			return r.Intn(2) == 0
		case "smallint":
			return r.Intn(1000) - 500
		case "largeint":
			return int64(math.MaxInt64) - int64(r.Intn(1000))
		case "float":
			return r.NormFloat64() * math.Pow(10, float64(r.Intn(40)-20))
		case "nan":
			return math.NaN()
		case "inf":
			return math.Inf(1 - 2*r.Intn(2))
		case "string":
			return rstr(r, 0)
		case "ctrlstring":
			return rstr(r, 1)
		case "nonutf8":
			return rstr(r, 2)
		case "bytes":
			return []byte(rstr(r, 2))
		case "map":
			return map[string]interface{}{"k" + rstr(r, 0): rstr(r, 1), "n": float64(r.Intn(100)), "z": nil}
		case "slice":
			return []interface{}{rstr(r, 0), float64(r.Intn(9)), true, nil, []interface{}{"x"}}
		case "struct":
			return st{A: rstr(r, 1), B: r.Int63(), C: []float64{1.5, -2}, D: map[string]string{"a": rstr(r, 2)}}
		case "ptr":
			return &st{A: rstr(r, 0), B: 7, E: &st{A: "inner", D: map[string]string{}}}
		case "chan":
			return make(chan int)
		case "func":
			return func() {}
		case "nested_ok":
			return map[string]interface{}{"l1": []interface{}{map[string]interface{}{"l3": st{A: rstr(r, 1), D: map[string]string{"k": "v"}}}}, "u": uint8(200)}
		case "nested_bad":
			return map[string]interface{}{"l1": []interface{}{map[string]interface{}{"l3": math.NaN()}}}
		}
		return nil
	}
	return mk(), mk()
}

var errPred = errors.New("harness: predicate failed")

func decodeLine(line string, v interface{}) error {
	var inner string
	if err := json.Unmarshal([]byte(line), &inner); err != nil {
		return err
	}
	return json.Unmarshal([]byte(inner), v)
}

func equalPayload(a, b interface{}, class string) bool {
	switch class {
	case "chan", "func":
		return true
	case "nan":
		return math.IsNaN(a.(float64)) && math.IsNaN(b.(float64))
	case "nested_bad":
		return true
	}
	return reflect.DeepEqual(a, b)
}

// Run replays every vector with n random members per class.
func Run(file string, seed int64, n int) (*Report, error) {
	rep := &Report{Mismatches: []Mismatch{}}
	f, err := os.Open(file)
	if err != nil {
		return nil, err
	}
	defer f.Close()
	rng := rand.New(rand.NewSource(seed))
	sc := bufio.NewScanner(f)
	sc.Buffer(make([]byte, 1<<20), 1<<26)
	for sc.Scan() {
		line := sc.Text()
		if !strings.HasPrefix(line, "\"") {
			continue
		}
		v := &Vec{}
		if err := decodeLine(line, v); err != nil {
			return nil, err
		}
		rep.Vectors++
		for i := 0; i < n; i++ {
			runVec(rep, v, rng)
		}
		if v.Exp.Stored {
			rep.Nontrivial++
		}
		if len(rep.Samples) < 4 && rep.Vectors%53 == 7 {
			rep.Samples = append(rep.Samples, v)
		}
	}
	return rep, sc.Err()
}

// held keeps the previous event and a private copy of what was stored for it: formatting a later event
// must not alter it (the stored line stays the image of ITS event).
var held struct {
	e    *eventlogger.Event
	line []byte
	vec  interface{}
}

func runVec(rep *Report, v *Vec, rng *rand.Rand) {
	rep.Runs++
	bad := func(what string, exp, obs interface{}) {
		rep.mm(Mismatch{What: what, Vector: v.X, Expected: exp, Observed: obs})
	}
	payload, snap := member(v.X.Payload, rng)
	typ := eventlogger.EventType("plain-type")
	if v.X.Type == "special" {
		typ = eventlogger.EventType("t\"y\\p\ne é\x01<&>" + rstr(rng, 2))
	}
	created := time.Date(2024, 1, 2, 3, 4, 5, rng.Intn(1e9), time.FixedZone("x", 3600*(rng.Intn(5)-2)))
	switch rng.Intn(8) {
	case 0:
		created = time.Time{} // an event nobody stamped (a Broker whose clock is stopped at the zero time): the creation time is what it is
	case 1:
		created = time.Unix(0, 0).UTC()
	}
	e := &eventlogger.Event{Type: typ, CreatedAt: created, Payload: payload, Formatted: map[string][]byte{}}
	if rng.Intn(2) == 0 {
		e.FormattedAs("other", []byte("untouched"))
	}
	stale := v.X.Node != "filter" && rng.Intn(2) == 0
	if stale {
		// an earlier node already stored something under "json": the formatter is the last writer and must win
		e.FormattedAs(eventlogger.JSONFormat, []byte("stale, not the image of this event"))
	}
	pred := func() (bool, error) {
		switch v.X.Pred {
		case "true":
			return true, nil
		case "false":
			return false, nil
		}
		// a failing predicate is an error whatever else it returns
		return rng.Intn(2) == 0, errPred
	}
	var node eventlogger.Node
	switch v.X.Node {
	case "formatter":
		node = &eventlogger.JSONFormatter{}
	case "formatterfilter":
		ff := &eventlogger.JSONFormatterFilter{}
		if v.X.Pred != "absent" {
			ff.Predicate = func(interface{}) (bool, error) { return pred() }
		}
		node = ff
	case "filter":
		node = &eventlogger.Filter{Predicate: func(*eventlogger.Event) (bool, error) { return pred() }}
	}
	out, err := node.Process(context.Background(), e)
	func() {
		if held.e != nil {
			if cur, ok := held.e.Format(eventlogger.JSONFormat); !ok || !bytes.Equal(cur, held.line) {
				rep.mm(Mismatch{What: "the line stored for an earlier event changed when a later event was formatted", Vector: held.vec, Expected: string(held.line), Observed: string(cur)})
			}
			held.e = nil
		}
	}()
	res := ""
	switch {
	case err != nil:
		res = "error"
		if out != nil {
			bad("an event was forwarded together with an error", "(nil, err)", "event")
		}
	case out == nil:
		res = "drop"
	default:
		res = "forward"
		if out != e {
			bad("a different event was forwarded", "same event", "other")
		}
	}
	if res != v.Exp.Res {
		bad("outcome of Process", v.Exp.Res, res)
		return
	}
	if !equalPayload(e.Payload, snap, v.X.Payload) {
		bad("the payload was altered", fmt.Sprint(snap), fmt.Sprint(e.Payload))
	}
	if e.Type != typ || !e.CreatedAt.Equal(created) {
		bad("event type / creation time altered", typ, e.Type)
	}
	line, ok := e.Format(eventlogger.JSONFormat)
	if stale && !v.Exp.Stored {
		if !ok || string(line) != "stale, not the image of this event" {
			bad("a failing formatter must leave the format table unchanged", "stale entry kept", string(line))
		}
		return
	}
	if ok != v.Exp.Stored {
		bad("json format stored", v.Exp.Stored, ok)
		return
	}
	if !ok {
		return
	}
	if len(line) == 0 || line[len(line)-1] != '\n' || bytes.Count(line, []byte("\n")) != 1 {
		bad("exactly one newline-terminated line", "one trailing newline", fmt.Sprintf("%q", line))
		return
	}
	var doc map[string]json.RawMessage
	if err := json.Unmarshal(line, &doc); err != nil {
		bad("stored line is valid JSON", "valid", err.Error())
		return
	}
	if len(doc) != 3 || doc["created_at"] == nil || doc["event_type"] == nil || doc["payload"] == nil {
		keys := []string{}
		for k := range doc {
			keys = append(keys, k)
		}
		bad("members of the stored document", []string{"created_at", "event_type", "payload"}, keys)
		return
	}
	var ts time.Time
	if json.Unmarshal(doc["created_at"], &ts) != nil || !ts.Equal(created) {
		bad("created_at decodes to the creation time", created, string(doc["created_at"]))
	}
	var et string
	wantET, _ := json.Marshal(string(typ))
	var wantETs string
	json.Unmarshal(wantET, &wantETs)
	if json.Unmarshal(doc["event_type"], &et) != nil || et != wantETs {
		bad("event_type decodes to the event's type", wantETs, et)
	}
	ind, _ := json.Marshal(snap)
	var a, b interface{}
	json.Unmarshal(ind, &a)
	if json.Unmarshal(doc["payload"], &b) != nil || !reflect.DeepEqual(a, b) {
		bad("payload member is the JSON image of the payload", string(ind), string(doc["payload"]))
	}
	held.e, held.line, held.vec = e, append([]byte{}, line...), v.X
	if other, ok := e.Format("other"); ok && string(other) != "untouched" {
		bad("another format's bytes were altered", "untouched", string(other))
	}
}

// Table stresses Event.FormattedAs / Format: each writer owns a key and stores increasing values;
// readers must never see a value go backwards, and the last written value wins.
func Table(seed int64, writers, readers, rounds int) []Mismatch {
	var mms []Mismatch
	var mu sync.Mutex
	// what Format handed out (a sink is writing it) stays what it was when the key is written again
	for _, pair := range [][2]string{{"first value, rather long: 0123456789", "second"}, {"{\"a\":1,\"b\":\"xxxxxxxx\"}\n", "{\"a\":1}\n"}, {"short", "a much longer second value 0123456789"}} {
		e0 := &eventlogger.Event{}
		first := []byte(pair[0])
		e0.FormattedAs("k", first)
		got1, _ := e0.Format("k")
		keep := append([]byte{}, got1...)
		e0.FormattedAs("k", []byte(pair[1]))
		got2, _ := e0.Format("k")
		if !bytes.Equal(got1, keep) || string(first) != pair[0] {
			mms = append(mms, Mismatch{What: "bytes handed out by Format (or given to FormattedAs) changed when the same key was written again", Expected: pair[0], Observed: string(got1)})
		}
		if string(got2) != pair[1] {
			mms = append(mms, Mismatch{What: "last writer does not win", Expected: pair[1], Observed: string(got2)})
		}
	}
	// an event built without a table: concurrent first writers (sibling formatters) must all find their entry afterwards
	for round := 0; round < 400 && len(mms) == 0; round++ {
		e1 := &eventlogger.Event{}
		const first = 4
		var ready atomic.Int64
		var goFlag atomic.Bool
		var fw sync.WaitGroup
		for k := 0; k < first; k++ {
			fw.Add(1)
			go func(k int) {
				defer fw.Done()
				ready.Add(1)
				for !goFlag.Load() {
				}
				e1.FormattedAs(fmt.Sprintf("fmt-%d", k), []byte(fmt.Sprintf("value-%d-%d", round, k)))
			}(k)
		}
		for ready.Load() < first {
			runtime.Gosched()
		}
		goFlag.Store(true)
		fw.Wait()
		for k := 0; k < first; k++ {
			if b, ok := e1.Format(fmt.Sprintf("fmt-%d", k)); !ok || string(b) != fmt.Sprintf("value-%d-%d", round, k) {
				mms = append(mms, Mismatch{What: "an entry stored by FormattedAs is gone after concurrent first writers of other keys returned", Expected: fmt.Sprintf("value-%d-%d", round, k), Observed: string(b)})
				break
			}
		}
	}
	e := &eventlogger.Event{}
	var wg sync.WaitGroup
	stop := make(chan struct{})
	for r := 0; r < readers; r++ {
		wg.Add(1)
		go func(r int) {
			defer wg.Done()
			last := make([]int, writers)
			for {
				select {
				case <-stop:
					return
				default:
				}
				for k := 0; k < writers; k++ {
					b, ok := e.Format(fmt.Sprintf("k%d", k))
					if !ok {
						continue
					}
					var n int
					if _, err := fmt.Sscanf(string(b), "v%d", &n); err != nil || n < last[k] {
						mu.Lock()
						mms = append(mms, Mismatch{What: "Format returned a value that was never stored or went backwards", Expected: fmt.Sprintf(">= v%d", last[k]), Observed: string(b)})
						mu.Unlock()
						return
					}
					last[k] = n
				}
			}
		}(r)
	}
	var ww sync.WaitGroup
	for w := 0; w < writers; w++ {
		ww.Add(1)
		go func(w int) {
			defer ww.Done()
			for i := 1; i <= rounds; i++ {
				e.FormattedAs(fmt.Sprintf("k%d", w), []byte(fmt.Sprintf("v%d", i)))
			}
		}(w)
	}
	ww.Wait()
	close(stop)
	wg.Wait()
	for w := 0; w < writers; w++ {
		b, ok := e.Format(fmt.Sprintf("k%d", w))
		if !ok || string(b) != fmt.Sprintf("v%d", rounds) {
			mms = append(mms, Mismatch{What: "last writer does not win", Expected: fmt.Sprintf("v%d", rounds), Observed: string(b)})
		}
	}
	return mms
}
