package encrep

import (
	"bufio"
	"bytes"
	"context"
	"encoding/json"
	"fmt"
	"math/rand"
	"os"
	"sort"
	"sync"
	"sync/atomic"
	"time"

	"github.com/hashicorp/eventlogger"
	"github.com/hashicorp/eventlogger/filters/encrypt"
	wrapping "github.com/hashicorp/go-kms-wrapping/v2"
)

// payload types: A = <<enc, hmac>>, B = <<hmac, hmac, enc>>; ev* carry an event id (EventWrapperInfo)
type plainA struct {
	V1 string `class:"sensitive,encrypt"`
	V2 []byte `class:"sensitive,hmac-sha256"`
}
type plainB struct {
	V1 string `class:"sensitive,hmac-sha256"`
	V2 string `class:"sensitive,hmac-sha256"`
	V3 []byte `class:"sensitive,encrypt"`
}
type evInfo struct {
	id         string
	salt, info []byte
}

// tsess / tsessB are Taggable structs (no pointer tags of their own): the values inside them are reached through the
// Taggable branch of the walker and must be keyed like every other value of the event.
type tsess struct {
	V2 []byte `class:"sensitive,hmac-sha256"`
}

func (t *tsess) Tags() ([]encrypt.PointerTag, error) { return nil, nil }

type tsessB struct {
	V2 string `class:"sensitive,hmac-sha256"`
	V3 []byte `class:"sensitive,encrypt"`
}

func (t *tsessB) Tags() ([]encrypt.PointerTag, error) { return nil, nil }

type evA struct {
	inf  *evInfo
	V1   string `class:"sensitive,encrypt"`
	Sess *tsess
}
type evB struct {
	inf  *evInfo
	V1   string `class:"sensitive,hmac-sha256"`
	Sess *tsessB
}

func (e *evA) EventId() string  { return e.inf.id }
func (e *evA) HmacSalt() []byte { return e.inf.salt }
func (e *evA) HmacInfo() []byte { return e.inf.info }
func (e *evB) EventId() string  { return e.inf.id }
func (e *evB) HmacSalt() []byte { return e.inf.salt }
func (e *evB) HmacInfo() []byte { return e.inf.info }

type kop struct {
	Kind       string   `json:"kind"`
	W          bool     `json:"w"`
	S          bool     `json:"s"`
	I          bool     `json:"i"`
	EvID       bool     `json:"evid"`
	EvSalt     bool     `json:"evsalt"`
	EvInfo     bool     `json:"evinfo"`
	Vals       []string `json:"vals,omitempty"`
	viaPayload bool
}

type kval struct {
	T   string `json:"t"`
	W   int    `json:"w"`
	Der bool   `json:"der"`
	S   int    `json:"s"`
	I   int    `json:"i"`
}

type hrec struct {
	K    string `json:"k"`
	C    string `json:"c"`
	N    int    `json:"n"`
	Vals []kval `json:"vals,omitempty"`
	seq  int64
}

type khist struct {
	ID    int              `json:"id"`
	Progs map[string][]kop `json:"progs"`
	H     []hrec           `json:"h"`
}

var sampleBytes = [][]byte{[]byte(""), []byte("plain ascii"), {0xff, 0xfe, 0x00, 0x80}, []byte("üñí-ç∂∑"), []byte("x")}

// RunKeys executes n random histories (sequential when conc = false) and writes them for TLC.
func RunKeys(outFile string, seed int64, n int) (*Report, error) {
	rep := newReport()
	f, err := os.Create(outFile)
	if err != nil {
		return nil, err
	}
	defer f.Close()
	bw := bufio.NewWriter(f)
	defer bw.Flush()
	rng := rand.New(rand.NewSource(seed))
	for h := 1; h <= n; h++ {
		conc := h%2 == 0
		nclients := 1
		if conc {
			nclients = 2 + rng.Intn(3)
		}
		// material by epoch; epoch 0 = initial
		wrappers := []wrapping.Wrapper{NewWrapper(fmt.Sprintf("h%d-w0", h))}
		salts := [][]byte{nil}
		infos := [][]byte{nil}
		flt := &encrypt.Filter{Wrapper: wrappers[0]}
		progs := map[string][]kop{}
		// one rotator (c1) so that rotation labels follow the order in which they take effect
		nrot := 1 + rng.Intn(3)
		for i := 0; i < nrot; i++ {
			op := kop{Kind: "rotate", W: rng.Intn(2) == 0, S: rng.Intn(2) == 0, I: rng.Intn(3) == 0, viaPayload: rng.Intn(2) == 0}
			if !op.W && !op.S && !op.I {
				op.W = true
			}
			progs["c1"] = append(progs["c1"], op)
		}
		evClients := []string{"c1"}
		if conc {
			evClients = nil
			for c := 2; c <= nclients; c++ {
				evClients = append(evClients, fmt.Sprintf("c%d", c))
			}
		}
		for _, c := range evClients {
			nev := 1 + rng.Intn(3)
			for i := 0; i < nev; i++ {
				op := kop{Kind: "event", EvID: rng.Intn(2) == 0}
				if op.EvID {
					op.EvSalt, op.EvInfo = rng.Intn(2) == 0, rng.Intn(2) == 0
				}
				if rng.Intn(2) == 0 {
					op.Vals = []string{"enc", "hmac"}
				} else {
					op.Vals = []string{"hmac", "hmac", "enc"}
				}
				progs[c] = append(progs[c], op)
			}
		}
		if !conc {
			// sequential: interleave rotations and events in one client
			ops := progs["c1"]
			rng.Shuffle(len(ops), func(i, j int) { ops[i], ops[j] = ops[j], ops[i] })
			progs["c1"] = ops
		}
		var seq int64
		var mu sync.Mutex
		var recs []hrec
		var matMu sync.Mutex
		type evrun struct {
			c      string
			n      int
			op     kop
			origs  [][]byte
			outs   []string
			evid   string
			evsalt []byte
			evinfo []byte
			err    error
			nilOut bool
		}
		var evruns []*evrun
		var wg sync.WaitGroup
		for c, ops := range progs {
			wg.Add(1)
			go func(c string, ops []kop) {
				defer wg.Done()
				crng := rand.New(rand.NewSource(seed + int64(h)*131 + int64(len(c))*7 + int64(c[1])))
				for i, op := range ops {
					n := i + 1
					inv := hrec{K: "inv", C: c, N: n}
					if op.Kind == "rotate" {
						var opts []encrypt.Option
						r := &rot{}
						if len(progs) > 1 {
							r.slow = time.Duration(20+crng.Intn(120)) * time.Microsecond // concurrent history: widen the rotation
						}
						matMu.Lock()
						if op.W {
							w := NewWrapper(fmt.Sprintf("h%d-w%d", h, len(wrappers)))
							wrappers = append(wrappers, w)
							opts = append(opts, encrypt.WithWrapper(w))
							r.w = w
						}
						if op.S {
							s := []byte(fmt.Sprintf("salt-%d-%d", h, len(salts)))
							salts = append(salts, s)
							opts = append(opts, encrypt.WithSalt(s))
							r.salt = s
						}
						if op.I {
							in := []byte(fmt.Sprintf("info-%d-%d", h, len(infos)))
							infos = append(infos, in)
							opts = append(opts, encrypt.WithInfo(in))
							r.info = in
						}
						matMu.Unlock()
						inv.seq = atomic.AddInt64(&seq, 1)
						if op.viaPayload {
							// the sender hands out its own buffers and wipes them once the rotation event is processed
							r.salt, r.info = cloneBytes(r.salt), cloneBytes(r.info)
							snapS, snapI := cloneBytes(r.salt), cloneBytes(r.info)
							// every other rotation payload also carries an event id (a common header on every payload of the
							// application): a payload that rotates is a rotation, whatever else it offers
							var rp interface{} = r
							if n%2 == 0 {
								rp = &rotWithID{rot: r, id: fmt.Sprintf("rot-%d-%s-%d", h, c, n)}
							}
							out, err := flt.Process(context.Background(), &eventlogger.Event{Type: "t", Payload: rp, Formatted: map[string][]byte{}})
							if !bytes.Equal(r.salt, snapS) || !bytes.Equal(r.info, snapI) {
								mu.Lock()
								rep.mm(Mismatch{Props: []string{"C10"}, What: "Process modified the rotation payload it was given (its salt / info buffers)", Vector: op,
									Expected: fmt.Sprintf("%q %q", snapS, snapI), Observed: fmt.Sprintf("%q %q", r.salt, r.info)})
								mu.Unlock()
							}
							for i := range r.salt {
								r.salt[i] = 0
							}
							for i := range r.info {
								r.info[i] = 0xff
							}
							if out != nil || err != nil {
								mu.Lock()
								rep.mm(Mismatch{Props: []string{"C09", "C16"}, What: "rotation payload must be consumed", Vector: op, Expected: "(nil,nil)", Observed: fmt.Sprintf("out=%v err=%v", out != nil, err)})
								mu.Unlock()
							}
						} else {
							flt.Rotate(opts...)
						}
						resp := hrec{K: "resp", C: c, N: n, Vals: []kval{}, seq: atomic.AddInt64(&seq, 1)}
						mu.Lock()
						recs = append(recs, inv, resp)
						mu.Unlock()
						continue
					}
					er := &evrun{c: c, n: n, op: op}
					var payload interface{}
					pick := func() []byte { return sampleBytes[crng.Intn(len(sampleBytes))] }
					var ei *evInfo
					if op.EvID {
						ei = &evInfo{id: fmt.Sprintf("ev-%d-%s-%d", h, c, n)}
						er.evid = ei.id
						if op.EvSalt {
							ei.salt = []byte("evsalt-" + ei.id)
							er.evsalt = ei.salt
						}
						if op.EvInfo {
							ei.info = []byte("evinfo-" + ei.id)
							er.evinfo = ei.info
						}
					}
					if len(op.Vals) == 2 {
						a := plainA{V1: string(pick()), V2: append([]byte{}, pick()...)}
						er.origs = [][]byte{[]byte(a.V1), append([]byte{}, a.V2...)}
						if ei != nil {
							payload = &evA{inf: ei, V1: a.V1, Sess: &tsess{V2: a.V2}}
						} else {
							payload = &a
						}
					} else {
						b := plainB{V1: string(pick()), V2: string(pick()), V3: append([]byte{}, pick()...)}
						er.origs = [][]byte{[]byte(b.V1), []byte(b.V2), append([]byte{}, b.V3...)}
						if ei != nil {
							payload = &evB{inf: ei, V1: b.V1, Sess: &tsessB{V2: b.V2, V3: b.V3}}
						} else {
							payload = &b
						}
					}
					inv.seq = atomic.AddInt64(&seq, 1)
					out, err := flt.Process(context.Background(), &eventlogger.Event{Type: "t", Payload: payload, Formatted: map[string][]byte{}})
					rseq := atomic.AddInt64(&seq, 1)
					er.err = err
					if err == nil && out != nil {
						switch p := out.Payload.(type) {
						case *plainA:
							er.outs = []string{p.V1, string(p.V2)}
						case *evA:
							er.outs = []string{p.V1, string(p.Sess.V2)}
						case *plainB:
							er.outs = []string{p.V1, p.V2, string(p.V3)}
						case *evB:
							er.outs = []string{p.V1, p.Sess.V2, string(p.Sess.V3)}
						}
					} else {
						er.nilOut = true
					}
					mu.Lock()
					recs = append(recs, inv, hrec{K: "resp", C: c, N: n, seq: rseq})
					evruns = append(evruns, er)
					mu.Unlock()
				}
			}(c, ops)
		}
		wg.Wait()
		// classify every output value by trial
		vals := map[string][]kval{}
		for _, er := range evruns {
			key := fmt.Sprintf("%s/%d", er.c, er.n)
			if er.err != nil || er.nilOut || len(er.outs) != len(er.op.Vals) {
				rep.mm(Mismatch{Props: []string{"C16"}, What: "event with a usable wrapper was not forwarded", Vector: er.op, Expected: "forwarded", Observed: fmt.Sprintf("err=%v outs=%d", er.err, len(er.outs))})
				continue
			}
			for vi, t := range er.op.Vals {
				kv, ok := classify(t, er.outs[vi], er.origs[vi], wrappers, salts, infos, er.evid, er.evsalt, er.evinfo)
				if !ok {
					rep.mm(Mismatch{Props: []string{"C16"}, What: "value is not the " + t + " of the original bytes under any key material that ever existed (or does not round-trip)", Vector: er.op,
						Expected: t, Observed: fmt.Sprintf("%q (original %q)", trunc(er.outs[vi]), er.origs[vi])})
				}
				vals[key] = append(vals[key], kv)
			}
			rep.Nontrivial++
		}
		sort.Slice(recs, func(i, j int) bool { return recs[i].seq < recs[j].seq })
		for i := range recs {
			if recs[i].K == "resp" {
				if v, ok := vals[fmt.Sprintf("%s/%d", recs[i].C, recs[i].N)]; ok {
					recs[i].Vals = v
				} else if recs[i].Vals == nil {
					recs[i].Vals = []kval{}
				}
			}
		}
		b, _ := json.Marshal(khist{ID: h, Progs: progs, H: recs})
		bw.Write(b)
		bw.WriteByte('\n')
		rep.Vectors++
		rep.Runs += len(evruns)
		if len(rep.Samples) < 3 && h%17 == 2 {
			rep.Samples = append(rep.Samples, khist{ID: h, Progs: progs, H: recs})
		}
	}
	return rep, nil
}

func trunc(s string) string {
	if len(s) > 60 {
		return s[:60] + "..."
	}
	return s
}

func classify(t, out string, orig []byte, wrappers []wrapping.Wrapper, salts, infos [][]byte, evid string, evsalt, evinfo []byte) (kval, bool) {
	type cand struct {
		w   wrapping.Wrapper
		e   int
		der bool
	}
	var cands []cand
	for e, w := range wrappers {
		cands = append(cands, cand{w, e, false})
		if evid != "" {
			if dw, err := encrypt.NewEventWrapper(context.Background(), w, evid); err == nil {
				cands = append(cands, cand{dw, e, true})
			}
		}
	}
	if t == "enc" {
		for _, c := range cands {
			if pt, ok := Decrypt(c.w, out); ok {
				if string(pt) != string(orig) {
					return kval{T: "enc", W: c.e, Der: c.der}, false
				}
				return kval{T: "enc", W: c.e, Der: c.der}, true
			}
		}
		return kval{T: "enc", W: 98}, false
	}
	type mat struct {
		b  []byte
		ep int
	}
	var ss, is []mat
	for e, s := range salts {
		ss = append(ss, mat{s, e})
	}
	for e, s := range infos {
		is = append(is, mat{s, e})
	}
	if evsalt != nil {
		ss = append(ss, mat{evsalt, 99})
	}
	if evinfo != nil {
		is = append(is, mat{evinfo, 99})
	}
	for _, c := range cands {
		for _, s := range ss {
			for _, i := range is {
				if Hmac(c.w, orig, s.b, i.b) == out {
					return kval{T: "hmac", W: c.e, Der: c.der, S: s.ep, I: i.ep}, true
				}
			}
		}
	}
	return kval{T: "hmac", W: 98}, false
}

func cloneBytes(b []byte) []byte {
	if b == nil {
		return nil
	}
	return append([]byte{}, b...)
}
