package encrep

import (
	"fmt"
	"reflect"
	"strings"

	"github.com/hashicorp/eventlogger"
	"github.com/hashicorp/eventlogger/filters/encrypt"
)

// TagVec is one state of spec/encrypt/Tags.tla: one or two pointer tags and the form the model
// expects for every leaf of the fixed tree.
type TagVec struct {
	Tags []struct {
		Path string `json:"path"`
		Cls  string `json:"cls"`
		Op   string `json:"op"`
	} `json:"tags"`
	Exp map[string]string `json:"exp"`
}

// tagTree builds the tree of Tags.tla: leaves one to four levels deep, siblings at every level,
// strings and byte slices, one canary per leaf.
func tagTree(c string) TMap {
	return TMap{
		"a": c + "/a",
		"m": map[string]interface{}{
			"b": c + "/m/b",
			"g": []byte(c + "/m/g"),
			// two sibling keys whose pointers need RFC 6901 escapes; the raw segment of the first pointer spells the second key
			"x/y":  c + "/m/x~1y",
			"x~1y": c + "/m/x~01y",
			"n": map[string]interface{}{
				"c": c + "/m/n/c",
				"f": c + "/m/n/f",
				"o": map[string]interface{}{"d": c + "/m/n/o/d", "e": []byte(c + "/m/n/o/e")},
			},
		},
	}
}

func leavesOf(v interface{}, prefix string, out map[string][]byte) {
	switch x := v.(type) {
	case TMap:
		leavesOf(map[string]interface{}(x), prefix, out)
	case map[string]interface{}:
		for k, val := range x {
			// a leaf is named by the pointer that addresses it: "~" is written "~0" and "/" is written "~1"
			leavesOf(val, prefix+"/"+strings.ReplaceAll(strings.ReplaceAll(k, "~", "~0"), "/", "~1"), out)
		}
	case string:
		out[prefix] = []byte(x)
	case []byte:
		out[prefix] = x
	}
}

// RunTags runs every vector of Tags.tla on the real filter, with the Taggable map as the payload itself and
// held in a struct field.
func RunTags(file string, seed int64) (*Report, error) {
	rep := newReport()
	w := NewWrapper("tags")
	n := 0
	err := eachLine(file, func(line string) error {
		v := &TagVec{}
		if err := decodeLine(line, v); err != nil {
			return err
		}
		rep.Vectors++
		for _, held := range []bool{false, true} {
			n++
			rep.Runs++
			c := fmt.Sprintf("CANARY-%d-%d", seed, n)
			curTags = nil
			for _, t := range v.Tags {
				curTags = append(curTags, encrypt.PointerTag{Pointer: t.Path, Classification: encrypt.DataClassification(t.Cls), Filter: encrypt.FilterOperation(t.Op)})
			}
			m, snap := tagTree(c), tagTree(c)
			var payload interface{} = m
			if held {
				payload = &holder{Attr: m, Name: "public-name"}
			}
			vec := map[string]interface{}{"tags": v.Tags, "in_struct": held}
			e := &eventlogger.Event{Type: "t", Payload: payload, Formatted: map[string][]byte{}}
			out, perr, pan := process(&encrypt.Filter{Wrapper: w}, e)
			if pan != nil || perr != nil || out == nil {
				rep.mm(Mismatch{Props: []string{"C09"}, What: "Process on a Taggable payload", Vector: vec, Expected: "forwarded", Observed: fmt.Sprintf("panic=%v err=%v", pan, perr)})
				continue
			}
			if !reflect.DeepEqual(map[string]interface{}(m), map[string]interface{}(snap)) {
				rep.mm(Mismatch{Props: []string{"C10"}, What: "Process modified the Taggable map it was given", Vector: vec, Expected: "unchanged", Observed: fmt.Sprint(m)})
			}
			var om interface{}
			switch p := out.Payload.(type) {
			case TMap:
				om = p
			case *holder:
				om = p.Attr
				if p.Name != "public-name" {
					rep.mm(Mismatch{Props: []string{"C10"}, What: "public-classified value not preserved", Vector: vec, Expected: "public-name", Observed: p.Name})
				}
			default:
				rep.mm(Mismatch{Props: []string{"C10"}, What: "dynamic type of the forwarded payload", Vector: vec, Expected: reflect.TypeOf(payload).String(), Observed: reflect.TypeOf(out.Payload).String()})
				continue
			}
			leaves := map[string][]byte{}
			leavesOf(om, "", leaves)
			if len(leaves) != len(v.Exp) {
				rep.mm(Mismatch{Props: []string{"C10"}, What: "leaves of the forwarded map", Vector: vec, Expected: len(v.Exp), Observed: len(leaves)})
			}
			for path, exp := range v.Exp {
				got, ok := leaves[path]
				if !ok {
					rep.mm(Mismatch{Props: []string{"C10"}, What: "leaf " + path + " missing from the forwarded map", Vector: vec, Expected: exp, Observed: "absent"})
					continue
				}
				form := Form(w, string(got), []byte(c+path))
				if form != exp {
					props := []string{"C09"}
					if exp == "plain" {
						props = []string{"C10", "C09"}
					}
					if form == "plain" || strings.Contains(string(got), c) {
						props = []string{"C09"}
					}
					if form == "encrypted-wrong" || form == "hmac-wrong" {
						// right kind of output, but not the operation applied to the original bytes under the key in force
						props = append(props, "C16")
					}
					rep.mm(Mismatch{Props: props, What: "form of leaf " + path + " after the filter", Vector: vec, Expected: exp, Observed: form})
				}
			}
			rep.Nontrivial++
		}
		return nil
	})
	reportAliasing(rep)
	return rep, err
}
