package encrep

import (
	"fmt"
	"reflect"
	"strings"
	"time"

	"github.com/hashicorp/eventlogger"
	"github.com/hashicorp/eventlogger/filters/encrypt"
	wrapping "github.com/hashicorp/go-kms-wrapping/v2"
)

var curTags []encrypt.PointerTag

// TMap is a Taggable map; its tags are taken from curTags (runs are sequential).
type TMap map[string]interface{}

func (t TMap) Tags() ([]encrypt.PointerTag, error) { return curTags, nil }

type holder struct {
	Attr TMap
	Name string `class:"public"`
}

// rot is a key-rotation payload.
type rot struct {
	w          wrapping.Wrapper
	salt, info []byte
	slow       time.Duration // the payload's getters are caller code and may take a while
}

func (r *rot) nap() {
	if r.slow > 0 {
		time.Sleep(r.slow)
	}
}
func (r *rot) Wrapper() wrapping.Wrapper { r.nap(); return r.w }
func (r *rot) HmacSalt() []byte          { r.nap(); return r.salt }
func (r *rot) HmacInfo() []byte          { r.nap(); return r.info }

// rotWithID is a rotation payload that also satisfies EventWrapperInfo (it has an event id).
type rotWithID struct {
	*rot
	id string
}

func (r *rotWithID) EventId() string { return r.id }

func mkMap(c string) TMap {
	return TMap{"tagged": c + "-tagged", "untagged": c + "-untagged", "n": 42,
		"nested": map[string]interface{}{"inner": c + "-inner", "other": c + "-other"}}
}

// RunTaggable runs pointer-tag vectors; the dictated operation per (class, op) is taken from the
// Policy vectors (overrides unset, wrapper present).
func RunTaggable(policyFile string, seed int64) (*Report, error) {
	rep := newReport()
	dict := map[[2]string]string{}
	err := eachLine(policyFile, func(line string) error {
		v := &PolicyVec{}
		if err := decodeLine(line, v); err != nil {
			return err
		}
		if v.V.Wr != "present" || v.V.Cls == "absent" {
			return nil
		}
		for _, o := range v.V.Ov {
			if o != "unset" {
				return nil
			}
		}
		dict[[2]string{v.V.Cls, v.V.Op}] = v.Exp.Leaf
		return nil
	})
	if err != nil {
		return nil, err
	}
	w := NewWrapper("taggable")
	n := 0
	for _, cls := range []string{"public", "sensitive", "secret"} {
		for _, op := range []string{"", "redact", "encrypt", "hmac-sha256"} {
			want, ok := dict[[2]string{cls, op}]
			if !ok {
				return nil, fmt.Errorf("policy vector for %s,%s missing", cls, op)
			}
			for _, depth := range []int{1, 2, 3} { // 3 = a depth-1 tag and a depth-2 tag together
				for _, held := range []bool{false, true} {
					n++
					rep.Vectors++
					rep.Runs++
					c := fmt.Sprintf("CANARY-%d-%d", seed, n)
					ptr := "/tagged"
					key := "tagged"
					if depth >= 2 {
						ptr, key = "/nested/inner", "inner"
					}
					curTags = []encrypt.PointerTag{{Pointer: ptr, Classification: encrypt.DataClassification(cls), Filter: encrypt.FilterOperation(op)}}
					if depth == 3 {
						curTags = append(curTags, encrypt.PointerTag{Pointer: "/tagged", Classification: encrypt.SecretClassification, Filter: encrypt.RedactOperation})
					}
					m, snap := mkMap(c), mkMap(c)
					var payload interface{} = m
					if held {
						payload = &holder{Attr: m, Name: "public-name"}
					}
					vec := map[string]interface{}{"cls": cls, "op": op, "pointer": ptr, "in_struct": held}
					f := &encrypt.Filter{Wrapper: w}
					e := &eventlogger.Event{Type: "t", Payload: payload, Formatted: map[string][]byte{}}
					out, perr, pan := process(f, e)
					if pan != nil || perr != nil || out == nil {
						rep.mm(Mismatch{Props: []string{"C09"}, What: "Process on a Taggable payload", Vector: vec, Expected: "forwarded", Observed: fmt.Sprintf("panic=%v err=%v", pan, perr)})
						continue
					}
					if !reflect.DeepEqual(map[string]interface{}(m), map[string]interface{}(snap)) {
						rep.mm(Mismatch{Props: []string{"C10"}, What: "Process modified the Taggable map it was given", Vector: vec, Expected: snap, Observed: m})
					}
					var om TMap
					switch p := out.Payload.(type) {
					case TMap:
						om = p
					case *holder:
						om = p.Attr
						if p.Name != "public-name" {
							rep.mm(Mismatch{Props: []string{"C10"}, What: "public-classified value not preserved", Vector: vec, Expected: "public-name", Observed: p.Name})
						}
					default:
						rep.mm(Mismatch{Props: []string{"C10"}, What: "dynamic type of the forwarded payload", Vector: vec, Expected: reflect.TypeOf(payload).String(), Observed: reflect.TypeOf(out.Payload).String()})
						continue
					}
					get := func(mm map[string]interface{}, k string) string { s, _ := mm[k].(string); return s }
					nested, _ := om["nested"].(map[string]interface{})
					if nested == nil || len(om) != 4 || len(nested) != 2 || om["n"] != 42 {
						rep.mm(Mismatch{Props: []string{"C10"}, What: "keys / non-string values of the forwarded map", Vector: vec, Expected: "4 keys, nested 2 keys, n=42", Observed: fmt.Sprint(om)})
						continue
					}
					got := map[string]string{"tagged": get(om, "tagged"), "untagged": get(om, "untagged"), "inner": get(nested, "inner"), "other": get(nested, "other")}
					for k, val := range got {
						form := Form(w, val, []byte(c+"-"+k))
						exp := "redacted" // unclassified map values
						if k == key {
							exp = want
						}
						if depth == 3 && k == "tagged" {
							exp = "redacted"
						}
						if form != exp {
							cl := ""
							if depth == 3 && k == "inner" && form == "redacted" {
								cl = "F11" // a nested tagged value is re-filtered as unclassified once the outer map is swept
							}
							if depth == 2 && (k == "tagged" || k == "untagged") && form == "plain" {
								cl = "F13" // only deep pointer tags: the outer map is never swept
							}
							props := []string{"C09"}
							if exp == "plain" {
								props = []string{"C10", "C09"}
							}
							rep.mm(Mismatch{Props: props, What: "form of map value " + k + " after the filter", Vector: vec, Expected: exp, Observed: form, Class: cl})
						}
					}
					rep.Nontrivial++
				}
			}
		}
	}
	// pointer tags three and four segments deep: only the addressed value takes the tag's operation, every other
	// string / []byte on the way (siblings in the intermediate maps included) is unclassified, i.e. redacted
	for _, cls := range []string{"public", "sensitive", "secret"} {
		for _, op := range []string{"", "redact", "encrypt", "hmac-sha256"} {
			want := dict[[2]string{cls, op}]
			for _, deep := range []int{3, 4} {
				for _, held := range []bool{false, true} {
					n++
					rep.Vectors++
					rep.Runs++
					c := fmt.Sprintf("CANARY-%d-%d", seed, n)
					mk := func() TMap {
						auth := map[string]interface{}{"token": c + "-token", "other": c + "-other"}
						if deep == 4 {
							auth = map[string]interface{}{"other": c + "-other", "cred": map[string]interface{}{"token": c + "-token", "kind": c + "-kind"}}
						}
						return TMap{"note": c + "-note", "request": map[string]interface{}{"peer": c + "-peer", "body": []byte(c + "-body"), "auth": auth}}
					}
					ptr := "/request/auth/token"
					if deep == 4 {
						ptr = "/request/auth/cred/token"
					}
					curTags = []encrypt.PointerTag{{Pointer: ptr, Classification: encrypt.DataClassification(cls), Filter: encrypt.FilterOperation(op)}}
					m, snap := mk(), mk()
					var payload interface{} = m
					if held {
						payload = &holder{Attr: m, Name: "public-name"}
					}
					vec := map[string]interface{}{"cls": cls, "op": op, "pointer": ptr, "in_struct": held}
					e := &eventlogger.Event{Type: "t", Payload: payload, Formatted: map[string][]byte{}}
					out, perr, pan := process(&encrypt.Filter{Wrapper: w}, e)
					if pan != nil || perr != nil || out == nil {
						rep.mm(Mismatch{Props: []string{"C09"}, What: "Process on a Taggable payload (deep pointer)", Vector: vec, Expected: "forwarded", Observed: fmt.Sprintf("panic=%v err=%v", pan, perr)})
						continue
					}
					if !reflect.DeepEqual(map[string]interface{}(m), map[string]interface{}(snap)) {
						rep.mm(Mismatch{Props: []string{"C10"}, What: "Process modified the Taggable map it was given", Vector: vec, Expected: snap, Observed: m})
					}
					var om TMap
					switch p := out.Payload.(type) {
					case TMap:
						om = p
					case *holder:
						om = p.Attr
					}
					leaves := map[string][]byte{}
					var walk func(prefix string, v interface{})
					walk = func(prefix string, v interface{}) {
						switch x := v.(type) {
						case TMap:
							walk(prefix, map[string]interface{}(x))
						case map[string]interface{}:
							for k, val := range x {
								walk(prefix+"/"+k, val)
							}
						case string:
							leaves[prefix] = []byte(x)
						case []byte:
							leaves[prefix] = x
						}
					}
					walk("", om)
					expLeaves := map[string]string{"/note": "note", "/request/peer": "peer", "/request/body": "body", "/request/auth/other": "other", ptr: "token"}
					if deep == 4 {
						expLeaves["/request/auth/cred/kind"] = "kind"
					}
					if len(leaves) != len(expLeaves) {
						rep.mm(Mismatch{Props: []string{"C10"}, What: "shape of the forwarded map (deep pointer)", Vector: vec, Expected: fmt.Sprint(len(expLeaves), " string leaves"), Observed: fmt.Sprint(len(leaves))})
					}
					for path, suffix := range expLeaves {
						got, ok := leaves[path]
						if !ok {
							continue
						}
						form := Form(w, string(got), []byte(c+"-"+suffix))
						exp := "redacted"
						if path == ptr {
							exp = want
						}
						if form != exp {
							props := []string{"C09"}
							if exp == "plain" {
								props = []string{"C10", "C09"}
							}
							rep.mm(Mismatch{Props: props, What: "form of map value " + path + " after the filter (tag " + ptr + ")", Vector: vec, Expected: exp, Observed: form})
						}
					}
					rep.Nontrivial++
				}
			}
		}
	}
	// malformed pointer => error, nothing forwarded; pointer to an absent key is skipped
	for _, tc := range []struct {
		ptr     string
		wantErr bool
	}{{"tagged", true}, {"/absent", false}} {
		rep.Vectors++
		rep.Runs++
		curTags = []encrypt.PointerTag{{Pointer: tc.ptr, Classification: encrypt.SecretClassification}}
		e := &eventlogger.Event{Type: "t", Payload: mkMap("X"), Formatted: map[string][]byte{}}
		out, perr, pan := process(&encrypt.Filter{Wrapper: w}, e)
		if pan != nil || (perr != nil) != tc.wantErr || (tc.wantErr && out != nil) {
			rep.mm(Mismatch{Props: []string{"C09"}, What: "tag pointer " + tc.ptr, Vector: tc.ptr, Expected: fmt.Sprintf("error=%v", tc.wantErr), Observed: fmt.Sprintf("panic=%v err=%v forwarded=%v", pan, perr, out != nil)})
		}
	}
	// pointer segments with RFC 6901 escapes ("~1" is "/", "~0" is "~"): the tag applies to the key the pointer
	// addresses and to that key only; the sibling keys, among them the raw spelling of the segment and the spellings a
	// wrong decoding order gives, are unclassified and leave redacted (F18)
	escKeys := []string{"a/b", "a~b", "a~1b", "a~0b", "a~01b", "a~10b", "a~~b", "a//b", "plain"}
	escape := func(k string) string { return strings.ReplaceAll(strings.ReplaceAll(k, "~", "~0"), "/", "~1") }
	for _, co := range [][2]string{{"public", ""}, {"secret", ""}, {"sensitive", ""}, {"sensitive", "hmac-sha256"}} {
		want := dict[co]
		for _, target := range escKeys[:len(escKeys)-1] {
			for _, nestedAt := range []bool{false, true} {
				n++
				rep.Vectors++
				rep.Runs++
				c := fmt.Sprintf("CANARY-%d-%d", seed, n)
				mk := func() TMap {
					inner := map[string]interface{}{}
					for _, k := range escKeys {
						inner[k] = c + "-" + k
					}
					if nestedAt {
						return TMap{"top": c + "-top", "nested": inner}
					}
					return TMap(inner)
				}
				ptr := "/" + escape(target)
				if nestedAt {
					ptr = "/nested/" + escape(target)
				}
				curTags = []encrypt.PointerTag{{Pointer: ptr, Classification: encrypt.DataClassification(co[0]), Filter: encrypt.FilterOperation(co[1])}}
				m, snap := mk(), mk()
				vec := map[string]interface{}{"cls": co[0], "op": co[1], "pointer": ptr, "addressed_key": target}
				out, perr, pan := process(&encrypt.Filter{Wrapper: w}, &eventlogger.Event{Type: "t", Payload: m, Formatted: map[string][]byte{}})
				if pan != nil || perr != nil || out == nil {
					rep.mm(Mismatch{Props: []string{"C09"}, What: "Process on a Taggable map with an escaped pointer", Vector: vec, Expected: "forwarded", Observed: fmt.Sprintf("panic=%v err=%v", pan, perr)})
					continue
				}
				if !reflect.DeepEqual(map[string]interface{}(m), map[string]interface{}(snap)) {
					rep.mm(Mismatch{Props: []string{"C10"}, What: "Process modified the Taggable map it was given", Vector: vec, Expected: snap, Observed: m})
				}
				om, _ := out.Payload.(TMap)
				inner := map[string]interface{}(om)
				if nestedAt {
					inner, _ = om["nested"].(map[string]interface{})
				}
				if om == nil || inner == nil || len(inner) != len(escKeys) {
					rep.mm(Mismatch{Props: []string{"C10"}, What: "keys of the forwarded map (escaped pointer)", Vector: vec, Expected: fmt.Sprintf("%d keys", len(escKeys)), Observed: fmt.Sprint(out.Payload)})
					continue
				}
				for _, k := range escKeys {
					val, _ := inner[k].(string)
					form := Form(w, val, []byte(c+"-"+k))
					exp := "redacted"
					if k == target {
						exp = want
					}
					if form != exp {
						props := []string{"C09"}
						if exp == "plain" {
							props = []string{"C10", "C09"}
						}
						rep.mm(Mismatch{Props: props, What: "form of map value " + k + " after the filter (escaped pointer)", Vector: vec, Expected: exp, Observed: form, Class: "F18"})
					}
				}
				rep.Nontrivial++
			}
		}
	}
	// the same *Event through the same Filter twice (a filter shared by two pipelines of one type, an event that is
	// sent again): every call filters what it is given at that moment and hands out a private copy of its own
	type rp struct {
		ID     string `class:"public"`
		Secret string `class:"secret"`
		N      int
		M      map[string]interface{}
	}
	for _, changed := range []bool{false, true} {
		for _, between := range []int{0, 1, 3} { // other events through the same filter between the two calls
			rep.Vectors++
			rep.Runs += 2
			f := &encrypt.Filter{Wrapper: w}
			pl := &rp{ID: "id-1", Secret: "repeat-secret-1", N: 1, M: map[string]interface{}{"k1": "repeat-v1"}}
			e := &eventlogger.Event{Type: "t", Payload: pl, Formatted: map[string][]byte{}}
			vec := map[string]interface{}{"probe": "same event twice", "payload_changed_between": changed, "other_events_between": between}
			out1, perr, pan := process(f, e)
			if pan != nil || perr != nil || out1 == nil {
				rep.mm(Mismatch{Props: []string{"C10"}, What: "Process (first call of the repeat probe)", Vector: vec, Expected: "forwarded", Observed: fmt.Sprintf("panic=%v err=%v", pan, perr)})
				continue
			}
			out1.FormattedAs("json", []byte("formatted by the first pipeline")) // what the nodes after the filter do with their copy
			for i := 0; i < between; i++ {
				process(f, &eventlogger.Event{Type: "t", Payload: &rp{ID: "x", Secret: "y", M: map[string]interface{}{}}, Formatted: map[string][]byte{}})
			}
			if changed {
				pl.ID, pl.N, pl.Secret = "id-2", 2, "repeat-secret-2"
				pl.M["k2"] = "repeat-v2"
			}
			out2, perr, pan := process(f, e)
			if pan != nil || perr != nil || out2 == nil {
				rep.mm(Mismatch{Props: []string{"C10"}, What: "Process (second call of the repeat probe)", Vector: vec, Expected: "forwarded", Observed: fmt.Sprintf("panic=%v err=%v", pan, perr)})
				continue
			}
			o2, _ := out2.Payload.(*rp)
			if o2 == nil {
				rep.mm(Mismatch{Props: []string{"C10"}, What: "dynamic type of the forwarded payload (repeat probe)", Vector: vec, Expected: "*rp", Observed: reflect.TypeOf(out2.Payload).String()})
				continue
			}
			if out2 == out1 || out2 == e || o2 == pl {
				rep.mm(Mismatch{Props: []string{"C10"}, What: "the second call must hand out a private copy of its own", Vector: vec, Expected: "an event distinct from the input and from the first call's output", Observed: fmt.Sprintf("same as first output=%v same as input=%v", out2 == out1, out2 == e || o2 == pl)})
			}
			if _, ok := out2.Format("json"); ok {
				rep.mm(Mismatch{Props: []string{"C10"}, What: "format table of the forwarded event (repeat probe)", Vector: vec, Expected: "empty, as the input's", Observed: "carries what was formatted on the first call's output"})
			}
			if o2.ID != pl.ID || o2.N != pl.N || len(o2.M) != len(pl.M) {
				rep.mm(Mismatch{Props: []string{"C10"}, What: "public value / non-string value / map keys of the input at the time of the call", Vector: vec, Expected: fmt.Sprintf("ID=%s N=%d keys=%d", pl.ID, pl.N, len(pl.M)), Observed: fmt.Sprintf("ID=%s N=%d keys=%d", o2.ID, o2.N, len(o2.M))})
			}
			if o2.Secret != encrypt.RedactedData {
				rep.mm(Mismatch{Props: []string{"C09"}, What: "secret field after the second call", Vector: vec, Expected: "redacted", Observed: o2.Secret})
			}
			for k, v := range o2.M {
				if v != encrypt.RedactedData {
					rep.mm(Mismatch{Props: []string{"C09"}, What: "unclassified map value " + k + " after the second call", Vector: vec, Expected: "redacted", Observed: fmt.Sprint(v)})
				}
			}
			if pl.Secret == encrypt.RedactedData || pl.M["k1"] != "repeat-v1" {
				rep.mm(Mismatch{Props: []string{"C10"}, What: "Process modified the payload it was given (repeat probe)", Vector: vec, Expected: "untouched", Observed: fmt.Sprint(*pl)})
			}
			rep.Nontrivial++
		}
	}
	// nil and zero payloads are forwarded unchanged: the very same event comes back
	type zs struct {
		A string `class:"secret"`
		B []byte `class:"sensitive"`
	}
	for name, pl := range map[string]interface{}{"nil": nil, "typed nil pointer": (*zs)(nil), "zero struct value": zs{}, "empty string": "", "nil map": map[string]interface{}(nil)} {
		rep.Vectors++
		rep.Runs++
		e := &eventlogger.Event{Type: "t", Payload: pl, Formatted: map[string][]byte{}}
		out, perr, pan := process(&encrypt.Filter{Wrapper: w}, e)
		if pan != nil || perr != nil || out != e {
			rep.mm(Mismatch{Props: []string{"C10"}, What: "a " + name + " payload must be forwarded unchanged (same event)", Vector: name, Expected: "same event, nil error", Observed: fmt.Sprintf("panic=%v err=%v same=%v", pan, perr, out == e)})
		}
	}
	// IgnoreTypes: values of an ignored pointer type may sit in struct fields, slices and maps; whatever the filter
	// does with them, the caller's payload must stay untouched and the output keeps its shape
	type ign struct {
		Owner string `class:"secret"`
		N     int
	}
	type ignPayload struct {
		Meta  *ign
		List  []*ign
		M     map[string]interface{}
		Other string `class:"secret"`
	}
	mkIgn := func() *ignPayload {
		return &ignPayload{Meta: &ign{"alice", 1}, List: []*ign{{"bob", 2}}, Other: "secret-other",
			M: map[string]interface{}{"meta": &ign{"carol", 3}, "metas": []interface{}{&ign{"dave", 4}}, "plain": "plain-string"}}
	}
	for _, withIgnore := range []bool{true, false} {
		rep.Vectors++
		rep.Runs++
		in, snap := mkIgn(), mkIgn()
		f := &encrypt.Filter{Wrapper: w}
		if withIgnore {
			f.IgnoreTypes = []reflect.Type{reflect.TypeOf(&ign{})}
		}
		out, perr, pan := process(f, &eventlogger.Event{Type: "t", Payload: in, Formatted: map[string][]byte{}})
		vec := fmt.Sprintf("IgnoreTypes=%v payload with *T in field, slice, map and slice inside a map", withIgnore)
		if pan != nil || perr != nil || out == nil {
			rep.mm(Mismatch{Props: []string{"C09"}, What: "Process with IgnoreTypes", Vector: vec, Expected: "forwarded", Observed: fmt.Sprintf("panic=%v err=%v", pan, perr)})
			continue
		}
		if !reflect.DeepEqual(in, snap) {
			rep.mm(Mismatch{Props: []string{"C10"}, What: "Process modified the payload it was given", Vector: vec, Expected: fmt.Sprintf("%+v %+v %+v", *snap.Meta, *snap.List[0], snap.M["meta"]), Observed: fmt.Sprintf("%+v %+v %+v", *in.Meta, *in.List[0], in.M["meta"])})
		}
		op, ok := out.Payload.(*ignPayload)
		if !ok || op == in || op.Meta == nil || len(op.List) != 1 || len(op.M) != 3 || op.Meta.N != 1 || op.List[0].N != 2 {
			rep.mm(Mismatch{Props: []string{"C10"}, What: "shape of the forwarded payload with IgnoreTypes", Vector: vec, Expected: "same shape, private copy", Observed: fmt.Sprintf("%+v", out.Payload)})
			continue
		}
		if op.Other != "[REDACTED]" {
			rep.mm(Mismatch{Props: []string{"C09"}, What: "secret field next to ignored values", Vector: vec, Expected: "[REDACTED]", Observed: op.Other})
		}
		if !withIgnore && (op.Meta.Owner != "[REDACTED]" || op.List[0].Owner != "[REDACTED]") {
			rep.mm(Mismatch{Props: []string{"C09"}, What: "secret fields of nested structs", Vector: vec, Expected: "[REDACTED]", Observed: op.Meta.Owner + "," + op.List[0].Owner})
		}
	}
	// IgnoreTypes names types, not shapes: listing a named slice / map / bytes type must not exempt plain values that
	// merely share its underlying type, and listing an interface-like or unrelated type exempts nothing
	type publicLabels []string
	type publicAttrs map[string]interface{}
	type publicBlob []byte
	type namedPayload struct {
		Labels  []string `class:"secret"`
		Tokens  [][]byte `class:"sensitive"`
		Raw     []byte   `class:"secret"`
		Attrs   map[string]interface{}
		Public  publicLabels
		PubAttr publicAttrs
	}
	for _, ig := range [][]reflect.Type{
		{reflect.TypeOf(publicLabels{})}, {reflect.TypeOf(publicAttrs{})}, {reflect.TypeOf(publicBlob{})},
		{reflect.TypeOf(publicLabels{}), reflect.TypeOf(publicAttrs{}), reflect.TypeOf(publicBlob{}), reflect.TypeOf(&ign{})},
	} {
		rep.Vectors++
		rep.Runs++
		c := fmt.Sprintf("CANARY-named-%d-%d", seed, len(ig))
		in := &namedPayload{Labels: []string{c + "-l1", c + "-l2"}, Tokens: [][]byte{[]byte(c + "-t1")}, Raw: []byte(c + "-raw"),
			Attrs: map[string]interface{}{"k": c + "-attr", "n": 7}, Public: publicLabels{"pub"}, PubAttr: publicAttrs{"p": "pub"}}
		f := &encrypt.Filter{Wrapper: w, IgnoreTypes: ig}
		out, perr, pan := process(f, &eventlogger.Event{Type: "t", Payload: in, Formatted: map[string][]byte{}})
		vec := fmt.Sprintf("IgnoreTypes=%v, payload with plain []string / [][]byte / []byte / map fields", ig)
		if pan != nil || perr != nil || out == nil {
			rep.mm(Mismatch{Props: []string{"C09"}, What: "Process with named types in IgnoreTypes", Vector: vec, Expected: "forwarded", Observed: fmt.Sprintf("panic=%v err=%v", pan, perr)})
			continue
		}
		op, ok := out.Payload.(*namedPayload)
		if !ok {
			rep.mm(Mismatch{Props: []string{"C10"}, What: "dynamic type of the forwarded payload", Vector: vec, Expected: "*namedPayload", Observed: reflect.TypeOf(out.Payload).String()})
			continue
		}
		dump := fmt.Sprintf("%q %q %q %v", op.Labels, op.Tokens, op.Raw, op.Attrs)
		if strings.Contains(dump, c) {
			rep.mm(Mismatch{Props: []string{"C09"}, What: "classified / unclassified values of plain types forwarded in plaintext because IgnoreTypes lists a named type with the same underlying type", Vector: vec, Expected: "no canary readable", Observed: dump})
		}
	}
	// rotation payloads are consumed, never forwarded
	rep.Vectors++
	rep.Runs++
	f := &encrypt.Filter{Wrapper: w}
	out, perr, pan := process(f, &eventlogger.Event{Type: "t", Payload: &rot{w: NewWrapper("rotated")}, Formatted: map[string][]byte{}})
	if pan != nil || perr != nil || out != nil {
		rep.mm(Mismatch{Props: []string{"C09"}, What: "key-rotation payload must be consumed", Vector: "rotation payload", Expected: "(nil, nil)", Observed: fmt.Sprintf("panic=%v err=%v forwarded=%v", pan, perr, out != nil)})
	}
	// values of untagged maps are unclassified data: redacted whatever the overrides say about the three classes;
	// and the dynamic type of every map value is kept (a *string stays a *string, also behind an interface)
	ovVals := []encrypt.FilterOperation{encrypt.NoOperation, encrypt.RedactOperation, encrypt.EncryptOperation, encrypt.HmacSha256Operation}
	for oi, secretOp := range ovVals {
		for _, sensOp := range []encrypt.FilterOperation{encrypt.EncryptOperation, encrypt.NoOperation} {
			rep.Vectors++
			rep.Runs++
			c := fmt.Sprintf("CANARY-ov-%d-%d-%s", seed, oi, sensOp)
			ps, pb := c+"-ps", []byte(c+"-pb")
			mkAttrs := func() map[string]interface{} {
				s2, b2 := ps, append([]byte{}, pb...)
				return map[string]interface{}{"s": c + "-s", "b": []byte(c + "-b"), "ss": []string{c + "-ss0", c + "-ss1"}, "ps": &s2, "pb": &b2, "n": 7,
					"deep": map[string]interface{}{"d": c + "-d"}}
			}
			type ovPayload struct {
				Attrs map[string]interface{}
				Keep  string `class:"sensitive"`
			}
			in := &ovPayload{Attrs: mkAttrs(), Keep: c + "-keep"}
			f := &encrypt.Filter{Wrapper: w, FilterOperationOverrides: map[encrypt.DataClassification]encrypt.FilterOperation{
				encrypt.SecretClassification: secretOp, encrypt.SensitiveClassification: sensOp, encrypt.PublicClassification: encrypt.RedactOperation}}
			vec := fmt.Sprintf("untagged map values under overrides secret=%s sensitive=%s public=redact", secretOp, sensOp)
			out, perr, pan := process(f, &eventlogger.Event{Type: "t", Payload: in, Formatted: map[string][]byte{}})
			if pan != nil || perr != nil || out == nil {
				rep.mm(Mismatch{Props: []string{"C09"}, What: "Process with overrides on a payload with an untagged map", Vector: vec, Expected: "forwarded", Observed: fmt.Sprintf("panic=%v err=%v", pan, perr)})
				continue
			}
			op, ok := out.Payload.(*ovPayload)
			if !ok || op.Attrs == nil {
				rep.mm(Mismatch{Props: []string{"C10"}, What: "dynamic type of the forwarded payload", Vector: vec, Expected: "*ovPayload", Observed: fmt.Sprintf("%T", out.Payload)})
				continue
			}
			for k, want := range map[string]string{"s": "string", "b": "[]uint8", "ss": "[]string", "ps": "*string", "pb": "*[]uint8", "n": "int", "deep": "map[string]interface {}"} {
				if got := fmt.Sprintf("%T", op.Attrs[k]); got != want {
					rep.mm(Mismatch{Props: []string{"C10"}, What: "dynamic type of map value " + k + " in the forwarded payload", Vector: vec, Expected: want, Observed: got})
				}
			}
			flat := map[string]string{}
			if v, ok := op.Attrs["s"].(string); ok {
				flat["s"] = v
			}
			if v, ok := op.Attrs["b"].([]byte); ok {
				flat["b"] = string(v)
			}
			if v, ok := op.Attrs["ss"].([]string); ok && len(v) == 2 {
				flat["ss0"], flat["ss1"] = v[0], v[1]
			}
			if v, ok := op.Attrs["ps"].(*string); ok && v != nil {
				flat["ps"] = *v
			}
			if v, ok := op.Attrs["pb"].(*[]byte); ok && v != nil {
				flat["pb"] = string(*v)
			}
			if dm, ok := op.Attrs["deep"].(map[string]interface{}); ok {
				flat["d"], _ = dm["d"].(string)
			}
			for k, v := range flat {
				if v != encrypt.RedactedData {
					rep.mm(Mismatch{Props: []string{"C09"}, What: "unclassified map value " + k + " is redacted whatever the class overrides are", Vector: vec, Expected: encrypt.RedactedData, Observed: v})
				}
			}
		}
	}
	// Taggable values nested in front of ordinary class-tagged fields: whatever the walker does inside the Taggable
	// struct / map (it passes extra options down), the fields that follow are filtered as their own tags dictate
	for depth := 0; depth <= 3; depth++ {
		for _, tagged := range []bool{true, false} {
			rep.Vectors++
			rep.Runs++
			c := fmt.Sprintf("CANARY-nest-%d-%d-%v", seed, depth, tagged)
			if tagged {
				curTags = []encrypt.PointerTag{{Pointer: "/tagged", Classification: encrypt.SecretClassification, Filter: encrypt.RedactOperation}}
			} else {
				curTags = nil
			}
			m := TMap{"tagged": c + "-mt", "untagged": c + "-mu"}
			var first interface{}
			switch depth {
			case 0:
				first = m
			case 1:
				first = &nestPlain{M: m}
			case 2:
				first = &nestTagStruct{In: nestPlain{M: m}, Own: c + "-own"}
			default:
				first = &nestTagStruct{In: nestPlain{M: m, Deeper: &nestTagStruct{In: nestPlain{M: TMap{"tagged": c + "-mt2", "untagged": c + "-mu2"}}, Own: c + "-own2"}}, Own: c + "-own"}
			}
			in := &nestPayload{First: first, S: c + "-S", T: c + "-T", B: []byte(c + "-B"), Last: TMap{"tagged": c + "-lt", "untagged": c + "-lu"}}
			vec := fmt.Sprintf("struct{First: Taggable nesting depth %d (pointer tag: %v); S secret; T sensitive; B secret bytes; Last Taggable map}", depth, tagged)
			out, perr, pan := process(&encrypt.Filter{Wrapper: w}, &eventlogger.Event{Type: "t", Payload: in, Formatted: map[string][]byte{}})
			if pan != nil || perr != nil || out == nil {
				rep.mm(Mismatch{Props: []string{"C09"}, What: "Process on nested Taggable values", Vector: vec, Expected: "forwarded", Observed: fmt.Sprintf("panic=%v err=%v", pan, perr)})
				continue
			}
			op, ok := out.Payload.(*nestPayload)
			if !ok {
				rep.mm(Mismatch{Props: []string{"C10"}, What: "dynamic type of the forwarded payload", Vector: vec, Expected: "*nestPayload", Observed: reflect.TypeOf(out.Payload).String()})
				continue
			}
			dump := fmt.Sprintf("%+v", derefAll(op))
			if strings.Contains(dump, c) {
				rep.mm(Mismatch{Props: []string{"C09"}, What: "plaintext readable after the filter in a payload whose first field nests Taggable values", Vector: vec, Expected: "no canary readable", Observed: dump})
			}
			if Form(w, op.S, []byte(c+"-S")) != "redacted" || Form(w, op.T, []byte(c+"-T")) != "encrypted" || Form(w, string(op.B), []byte(c+"-B")) != "redacted" {
				rep.mm(Mismatch{Props: []string{"C09"}, What: "class-tagged fields that follow a nested Taggable value", Vector: vec, Expected: "S redacted, T encrypted, B redacted", Observed: fmt.Sprintf("S=%s T=%s B=%s", Form(w, op.S, []byte(c+"-S")), Form(w, op.T, []byte(c+"-T")), Form(w, string(op.B), []byte(c+"-B")))})
			}
		}
	}
	// with every operation overridden to none the filter is a pass-through for whatever it is given, a rotation
	// payload included: the very same event comes back and the filter keeps its key material
	rep.Vectors++
	rep.Runs++
	none := map[encrypt.DataClassification]encrypt.FilterOperation{
		encrypt.PublicClassification: encrypt.NoOperation, encrypt.SensitiveClassification: encrypt.NoOperation, encrypt.SecretClassification: encrypt.NoOperation}
	fn := &encrypt.Filter{Wrapper: w, HmacSalt: []byte("salt-0"), HmacInfo: []byte("info-0"), FilterOperationOverrides: none}
	re := &eventlogger.Event{Type: "t", Payload: &rot{w: NewWrapper("other"), salt: []byte("salt-1"), info: []byte("info-1")}, Formatted: map[string][]byte{}}
	out2, perr2, pan2 := process(fn, re)
	if pan2 != nil || perr2 != nil || out2 != re || fn.Wrapper != w || string(fn.HmacSalt) != "salt-0" || string(fn.HmacInfo) != "info-0" {
		rep.mm(Mismatch{Props: []string{"C10"}, What: "all operations overridden to none: a payload that carries rotation material must be forwarded unchanged like any other, and the filter left as it was",
			Vector: "rotation payload, all-none overrides", Expected: "same event, nil error, filter untouched", Observed: fmt.Sprintf("panic=%v err=%v same=%v wrapper kept=%v salt=%q", pan2, perr2, out2 == re, fn.Wrapper == w, fn.HmacSalt)})
	}
	RunZoo(rep, seed, 400)
	curTags = nil
	reportAliasing(rep)
	return rep, nil
}

type nestPlain struct {
	M      TMap
	Deeper *nestTagStruct
}

// nestTagStruct is a Taggable struct without pointer tags of its own.
type nestTagStruct struct {
	In  nestPlain
	Own string `class:"secret"`
}

func (t *nestTagStruct) Tags() ([]encrypt.PointerTag, error) { return nil, nil }

type nestPayload struct {
	First interface{}
	S     string `class:"secret"`
	T     string `class:"sensitive"`
	B     []byte `class:"secret"`
	Last  TMap
}

// derefAll renders a payload with its pointers followed, for plaintext searches.
func derefAll(p *nestPayload) interface{} {
	var walk func(v interface{}) interface{}
	walk = func(v interface{}) interface{} {
		switch x := v.(type) {
		case *nestPlain:
			if x == nil {
				return nil
			}
			return map[string]interface{}{"M": x.M, "Deeper": walk(x.Deeper)}
		case nestPlain:
			return map[string]interface{}{"M": x.M, "Deeper": walk(x.Deeper)}
		case *nestTagStruct:
			if x == nil {
				return nil
			}
			return map[string]interface{}{"In": walk(x.In), "Own": x.Own}
		}
		return v
	}
	return map[string]interface{}{"First": walk(p.First), "S": p.S, "T": p.T, "B": string(p.B), "Last": p.Last}
}
