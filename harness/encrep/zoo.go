package encrep

import (
	"fmt"
	"math/rand"
	"reflect"
	"strings"

	"github.com/hashicorp/eventlogger"
	"github.com/hashicorp/eventlogger/filters/encrypt"
)

// Random compositions: payloads built from a small zoo of struct types whose fields mix class-tagged values,
// untagged and Taggable maps, Taggable structs, pointers, slices of structs and interface fields, in different
// orders. Every string / []byte placed in the payload is a canary with the form Policy.tla dictates for the way it
// is classified; after the filter each canary must have exactly that form (C09) and the caller's payload must be
// untouched (C10). The single-path tables (Walk, Tags) cannot see position-dependent behaviour: what the walker did
// to an earlier field must not change what happens to a later one.

type zooTagged struct {
	Own  string `class:"secret"`
	In   zooPlain
	Note string `class:"sensitive"`
}

func (t *zooTagged) Tags() ([]encrypt.PointerTag, error) { return nil, nil }

type zooPlain struct {
	M    TMap
	Word string `class:"sensitive"`
	Deep *zooTagged
}

type zooA struct {
	First  interface{}
	S1     string `class:"secret"`
	M1     TMap
	P1     *zooB
	B1     []byte `class:"sensitive"`
	T1     *zooTagged
	L1     []zooB
	Pub    string `class:"public"`
	U1     map[string]interface{}
	SS     []string `class:"secret"`
	Bare   string
	Last   *zooPlain
	Digest string `class:"sensitive,hmac-sha256"`
}

type zooB struct {
	Tail string `class:"sensitive"`
	T2   *zooTagged
	U2   map[string]interface{}
	Head string `class:"secret"`
	M2   TMap
	Pub2 []byte `class:"public"`
	In   *zooPlain
	Red  string `class:"sensitive,redact"`
}

type zooLeaf struct {
	get func(root *zooA) (string, bool) // value after the filter
	exp string
	c   string
	at  string
}

type zooGen struct {
	rng    *rand.Rand
	n      int
	seed   int64
	leaves []zooLeaf
}

func (g *zooGen) canary(at string) string {
	g.n++
	return fmt.Sprintf("ZOO-%d-%d-%s", g.seed, g.n, at)
}

// Every builder returns the value and registers the leaves it placed through accessor closures built by the caller.

func (g *zooGen) tmap(at string, add func(key string, exp string, c string)) TMap {
	if g.rng.Intn(4) == 0 {
		return nil
	}
	m := TMap{}
	c1, c2 := g.canary(at+".tagged"), g.canary(at+".untagged")
	m["tagged"], m["untagged"] = c1, c2
	add("tagged", "TAG", c1)
	add("untagged", "redacted", c2)
	if g.rng.Intn(2) == 0 {
		c3 := g.canary(at + ".nested.inner")
		m["nested"] = map[string]interface{}{"inner": c3}
		add("nested/inner", "redacted", c3)
	}
	return m
}

// build fills a zooA; depth limits recursion.
func (g *zooGen) build() *zooA {
	a := &zooA{}
	reg := func(at, exp, c string, get func(*zooA) (string, bool)) {
		g.leaves = append(g.leaves, zooLeaf{get: get, exp: exp, c: c, at: at})
	}
	mapGet := func(sel func(*zooA) map[string]interface{}, key string) func(*zooA) (string, bool) {
		return func(r *zooA) (string, bool) {
			m := sel(r)
			if m == nil {
				return "", false
			}
			parts := strings.Split(key, "/")
			var cur interface{} = m
			for _, p := range parts {
				mm, ok := cur.(map[string]interface{})
				if !ok {
					if tm, ok2 := cur.(TMap); ok2 {
						mm = map[string]interface{}(tm)
					} else {
						return "", false
					}
				}
				cur = mm[p]
			}
			switch x := cur.(type) {
			case string:
				return x, true
			case []byte:
				return string(x), true
			}
			return "", false
		}
	}
	tagged := func(at string, sel func(*zooA) *zooTagged, depth int) *zooTagged {
		if g.rng.Intn(3) == 0 {
			return nil
		}
		t := &zooTagged{}
		var fill func(t *zooTagged, at string, sel func(*zooA) *zooTagged, depth int)
		fill = func(t *zooTagged, at string, sel func(*zooA) *zooTagged, depth int) {
			t.Own = g.canary(at + ".Own")
			reg(at+".Own", "redacted", t.Own, func(r *zooA) (string, bool) {
				if x := sel(r); x != nil {
					return x.Own, true
				}
				return "", false
			})
			t.Note = g.canary(at + ".Note")
			reg(at+".Note", "encrypted", t.Note, func(r *zooA) (string, bool) {
				if x := sel(r); x != nil {
					return x.Note, true
				}
				return "", false
			})
			t.In.Word = g.canary(at + ".In.Word")
			reg(at+".In.Word", "encrypted", t.In.Word, func(r *zooA) (string, bool) {
				if x := sel(r); x != nil {
					return x.In.Word, true
				}
				return "", false
			})
			t.In.M = g.tmap(at+".In.M", func(key, exp, c string) {
				reg(at+".In.M/"+key, exp, c, mapGet(func(r *zooA) map[string]interface{} {
					if x := sel(r); x != nil {
						return x.In.M
					}
					return nil
				}, key))
			})
			if depth > 0 && g.rng.Intn(2) == 0 {
				t.In.Deep = &zooTagged{}
				fill(t.In.Deep, at+".In.Deep", func(r *zooA) *zooTagged {
					if x := sel(r); x != nil {
						return x.In.Deep
					}
					return nil
				}, depth-1)
			}
		}
		fill(t, at, sel, depth)
		return t
	}
	plain := func(at string, sel func(*zooA) *zooPlain) *zooPlain {
		if g.rng.Intn(3) == 0 {
			return nil
		}
		p := &zooPlain{}
		p.Word = g.canary(at + ".Word")
		reg(at+".Word", "encrypted", p.Word, func(r *zooA) (string, bool) {
			if x := sel(r); x != nil {
				return x.Word, true
			}
			return "", false
		})
		p.M = g.tmap(at+".M", func(key, exp, c string) {
			reg(at+".M/"+key, exp, c, mapGet(func(r *zooA) map[string]interface{} {
				if x := sel(r); x != nil {
					return x.M
				}
				return nil
			}, key))
		})
		return p
	}
	umap := func(at string, sel func(*zooA) map[string]interface{}) map[string]interface{} {
		if g.rng.Intn(3) == 0 {
			return nil
		}
		c1, c2 := g.canary(at+".k"), g.canary(at+".b")
		m := map[string]interface{}{"k": c1, "b": []byte(c2), "n": 3}
		reg(at+"/k", "redacted", c1, mapGet(sel, "k"))
		reg(at+"/b", "redacted", c2, mapGet(sel, "b"))
		return m
	}
	fillB := func(b *zooB, at string, sel func(*zooA) *zooB) {
		b.Tail = g.canary(at + ".Tail")
		reg(at+".Tail", "encrypted", b.Tail, func(r *zooA) (string, bool) {
			if x := sel(r); x != nil {
				return x.Tail, true
			}
			return "", false
		})
		b.Head = g.canary(at + ".Head")
		reg(at+".Head", "redacted", b.Head, func(r *zooA) (string, bool) {
			if x := sel(r); x != nil {
				return x.Head, true
			}
			return "", false
		})
		b.Red = g.canary(at + ".Red")
		reg(at+".Red", "redacted", b.Red, func(r *zooA) (string, bool) {
			if x := sel(r); x != nil {
				return x.Red, true
			}
			return "", false
		})
		cp := g.canary(at + ".Pub2")
		b.Pub2 = []byte(cp)
		reg(at+".Pub2", "plain", cp, func(r *zooA) (string, bool) {
			if x := sel(r); x != nil {
				return string(x.Pub2), true
			}
			return "", false
		})
		b.T2 = tagged(at+".T2", func(r *zooA) *zooTagged {
			if x := sel(r); x != nil {
				return x.T2
			}
			return nil
		}, 1)
		b.U2 = umap(at+".U2", func(r *zooA) map[string]interface{} {
			if x := sel(r); x != nil {
				return x.U2
			}
			return nil
		})
		b.M2 = g.tmap(at+".M2", func(key, exp, c string) {
			reg(at+".M2/"+key, exp, c, mapGet(func(r *zooA) map[string]interface{} {
				if x := sel(r); x != nil {
					return x.M2
				}
				return nil
			}, key))
		})
		b.In = plainOf(g, plain, at+".In", func(r *zooA) *zooPlain {
			if x := sel(r); x != nil {
				return x.In
			}
			return nil
		})
	}
	// the fields of zooA in declaration order
	// (a Taggable map held in an interface-typed field is not recognised as Taggable by the walker: all its values are
	// redacted, its tags ignored. Interface-typed fields are not among the shapes C09 lists, so that is not demanded.)
	switch g.rng.Intn(4) {
	case 1:
		if t := tagged("First", func(r *zooA) *zooTagged { x, _ := r.First.(*zooTagged); return x }, 2); t != nil {
			a.First = t
		}
	case 2:
		if p := plain("First", func(r *zooA) *zooPlain { x, _ := r.First.(*zooPlain); return x }); p != nil {
			a.First = p
		}
	}
	a.S1 = g.canary("S1")
	reg("S1", "redacted", a.S1, func(r *zooA) (string, bool) { return r.S1, true })
	a.M1 = g.tmap("M1", func(key, exp, c string) {
		reg("M1/"+key, exp, c, mapGet(func(r *zooA) map[string]interface{} { return r.M1 }, key))
	})
	if g.rng.Intn(2) == 0 {
		a.P1 = &zooB{}
		fillB(a.P1, "P1", func(r *zooA) *zooB { return r.P1 })
	}
	cb := g.canary("B1")
	a.B1 = []byte(cb)
	reg("B1", "encrypted", cb, func(r *zooA) (string, bool) { return string(r.B1), true })
	a.T1 = tagged("T1", func(r *zooA) *zooTagged { return r.T1 }, 2)
	for i := 0; i < g.rng.Intn(3); i++ {
		i := i
		a.L1 = append(a.L1, zooB{})
		fillB(&a.L1[i], fmt.Sprintf("L1[%d]", i), func(r *zooA) *zooB {
			if i < len(r.L1) {
				return &r.L1[i]
			}
			return nil
		})
	}
	a.Pub = g.canary("Pub")
	reg("Pub", "plain", a.Pub, func(r *zooA) (string, bool) { return r.Pub, true })
	a.U1 = umap("U1", func(r *zooA) map[string]interface{} { return r.U1 })
	if g.rng.Intn(2) == 0 {
		c1, c2 := g.canary("SS0"), g.canary("SS1")
		a.SS = []string{c1, c2}
		reg("SS[0]", "redacted", c1, func(r *zooA) (string, bool) {
			if len(r.SS) == 2 {
				return r.SS[0], true
			}
			return "", false
		})
		reg("SS[1]", "redacted", c2, func(r *zooA) (string, bool) {
			if len(r.SS) == 2 {
				return r.SS[1], true
			}
			return "", false
		})
	}
	a.Bare = g.canary("Bare")
	reg("Bare", "BARE", a.Bare, func(r *zooA) (string, bool) { return r.Bare, true })
	a.Last = plain("Last", func(r *zooA) *zooPlain { return r.Last })
	a.Digest = g.canary("Digest")
	reg("Digest", "hmac", a.Digest, func(r *zooA) (string, bool) { return r.Digest, true })
	return a
}

func plainOf(g *zooGen, plain func(string, func(*zooA) *zooPlain) *zooPlain, at string, sel func(*zooA) *zooPlain) *zooPlain {
	return plain(at, sel)
}

// RunZoo runs n random compositions.
func RunZoo(rep *Report, seed int64, n int) {
	w := NewWrapper("zoo")
	for i := 0; i < n; i++ {
		g := &zooGen{rng: rand.New(rand.NewSource(seed*7919 + int64(i))), seed: seed*1000 + int64(i)}
		withTag := g.rng.Intn(3) != 0
		if withTag {
			curTags = []encrypt.PointerTag{{Pointer: "/tagged", Classification: encrypt.SensitiveClassification, Filter: encrypt.EncryptOperation}}
		} else {
			curTags = nil
		}
		in := g.build()
		snap := fmt.Sprintf("%+v", zooDump(in))
		rep.Vectors++
		rep.Runs++
		vec := fmt.Sprintf("random composition %d/%d (pointer tag on every Taggable map: %v)", seed, i, withTag)
		out, perr, pan := process(&encrypt.Filter{Wrapper: w}, &eventlogger.Event{Type: "t", Payload: in, Formatted: map[string][]byte{}})
		if pan != nil || perr != nil || out == nil {
			rep.mm(Mismatch{Props: []string{"C09"}, What: "Process on a random composition of supported shapes", Vector: vec, Expected: "forwarded", Observed: fmt.Sprintf("panic=%v err=%v", pan, perr)})
			continue
		}
		if after := fmt.Sprintf("%+v", zooDump(in)); after != snap {
			rep.mm(Mismatch{Props: []string{"C10"}, What: "Process modified the payload it was given (random composition)", Vector: vec, Expected: snap[:min(300, len(snap))], Observed: after[:min(300, len(after))]})
		}
		op, ok := out.Payload.(*zooA)
		if !ok {
			rep.mm(Mismatch{Props: []string{"C10"}, What: "dynamic type of the forwarded payload", Vector: vec, Expected: "*zooA", Observed: reflect.TypeOf(out.Payload).String()})
			continue
		}
		bad := 0
		for _, lf := range g.leaves {
			got, ok := lf.get(op)
			if !ok {
				rep.mm(Mismatch{Props: []string{"C10"}, What: "value at " + lf.at + " is missing from the forwarded payload", Vector: vec, Expected: lf.exp, Observed: "absent"})
				continue
			}
			exp := lf.exp
			switch exp {
			case "TAG":
				exp = "redacted"
				if withTag {
					exp = "encrypted"
				}
			case "BARE": // a struct field without class tag is unclassified
				exp = "redacted"
			}
			form := Form(w, got, []byte(lf.c))
			if form != exp && bad < 4 {
				bad++
				props := []string{"C09"}
				if exp == "plain" {
					props = []string{"C10"}
				}
				rep.mm(Mismatch{Props: props, What: "form of " + lf.at + " after the filter in a random composition", Vector: vec, Expected: exp, Observed: form})
			}
		}
		rep.Nontrivial++
	}
	curTags = nil
}

func zooDump(a *zooA) interface{} {
	var dT func(t *zooTagged) interface{}
	dP := func(p *zooPlain) interface{} { return nil }
	dT = func(t *zooTagged) interface{} {
		if t == nil {
			return nil
		}
		return []interface{}{t.Own, t.Note, t.In.Word, map[string]interface{}(t.In.M), dT(t.In.Deep)}
	}
	dP = func(p *zooPlain) interface{} {
		if p == nil {
			return nil
		}
		return []interface{}{p.Word, map[string]interface{}(p.M), dT(p.Deep)}
	}
	dB := func(b *zooB) interface{} {
		if b == nil {
			return nil
		}
		return []interface{}{b.Tail, dT(b.T2), b.U2, b.Head, map[string]interface{}(b.M2), string(b.Pub2), dP(b.In), b.Red}
	}
	var first interface{}
	switch x := a.First.(type) {
	case TMap:
		first = map[string]interface{}(x)
	case *zooTagged:
		first = dT(x)
	case *zooPlain:
		first = dP(x)
	}
	var l []interface{}
	for i := range a.L1 {
		l = append(l, dB(&a.L1[i]))
	}
	return []interface{}{first, a.S1, map[string]interface{}(a.M1), dB(a.P1), string(a.B1), dT(a.T1), l, a.Pub, a.U1, a.SS, a.Bare, dP(a.Last), a.Digest}
}
