// Package encrep replays the vectors of the TLA+ modules Policy and Walk on the
// real encrypt.Filter: one implementation run per model state. Go values are
// built with reflect from the model's description, every leaf holds a unique
// canary, and the output is classified by trial (redacted marker, decryption
// with the wrapper, HMAC recomputation, or the canary still being readable).
package encrep

import (
	"bufio"
	"bytes"
	"context"
	"crypto/hmac"
	"crypto/sha256"
	"encoding/base64"
	"encoding/json"
	"errors"
	"fmt"
	"io"
	"os"
	"reflect"
	"strings"
	"sync/atomic"

	"github.com/hashicorp/eventlogger"
	"github.com/hashicorp/eventlogger/filters/encrypt"
	wrapping "github.com/hashicorp/go-kms-wrapping/v2"
	"github.com/hashicorp/go-kms-wrapping/v2/aead"
	"google.golang.org/protobuf/proto"
	"google.golang.org/protobuf/types/known/wrapperspb"
)

// NewWrapper builds an AEAD wrapper with a deterministic key derived from id.
func NewWrapper(id string) *aead.Wrapper {
	key := sha256.Sum256([]byte("verif-key-" + id))
	w := aead.NewWrapper()
	// a key id is a label, not the key: a third of the wrappers carry their own id, a third share one stable label
	// ("audit-key", as when a name is kept across key versions) and a third have none at all, so that a rotation
	// between two wrappers with equal ids and different key bytes is part of every rotation history
	switch key[0] % 3 {
	case 0:
		if _, err := w.SetConfig(context.Background(), wrapping.WithKeyId("key-"+id)); err != nil {
			panic(err)
		}
	case 1:
		if _, err := w.SetConfig(context.Background(), wrapping.WithKeyId("audit-key")); err != nil {
			panic(err)
		}
	}
	if err := w.SetAesGcmKeyBytes(key[:]); err != nil {
		panic(err)
	}
	return w
}

// failingWrapper fails every Encrypt and is not usable for key derivation either.
type failingWrapper struct{ *aead.Wrapper }

var errWrap = errors.New("harness: injected wrapper failure")

func (f *failingWrapper) Encrypt(ctx context.Context, pt []byte, opt ...wrapping.Option) (*wrapping.BlobInfo, error) {
	return nil, errWrap
}

// Decrypt tries to decrypt an "encrypted:" value with w.
func Decrypt(w wrapping.Wrapper, v string) ([]byte, bool) {
	if !strings.HasPrefix(v, "encrypted:") {
		return nil, false
	}
	raw, err := base64.RawURLEncoding.DecodeString(strings.TrimPrefix(v, "encrypted:"))
	if err != nil {
		return nil, false
	}
	blob := new(wrapping.BlobInfo)
	if err := proto.Unmarshal(raw, blob); err != nil {
		return nil, false
	}
	pt, err := w.Decrypt(context.Background(), blob, nil)
	if err != nil {
		return nil, false
	}
	if pt == nil {
		pt = []byte{}
	}
	return pt, true
}

// Hmac recomputes the filter's HMAC form independently (HKDF reader from the exported helper, crypto/hmac).
func Hmac(w wrapping.Wrapper, data, salt, info []byte) string {
	rd, err := encrypt.NewDerivedReader(context.Background(), w, 32, salt, info)
	if err != nil {
		return "!" + err.Error()
	}
	key := make([]byte, 32)
	if _, err := io.ReadFull(rd, key); err != nil {
		return "!" + err.Error()
	}
	m := hmac.New(sha256.New, key)
	m.Write(data)
	return "hmac-sha256:" + base64.RawURLEncoding.EncodeToString(m.Sum(nil))
}

// Form classifies an output value against the original plaintext.
func Form(w wrapping.Wrapper, out string, orig []byte) string {
	switch {
	case out == string(orig):
		return "plain"
	case out == encrypt.RedactedData:
		return "redacted"
	case strings.HasPrefix(out, "encrypted:"):
		if pt, ok := Decrypt(w, out); ok && bytes.Equal(pt, orig) {
			return "encrypted"
		}
		return "encrypted-wrong"
	case strings.HasPrefix(out, "hmac-sha256:"):
		if out == Hmac(w, orig, nil, nil) {
			return "hmac"
		}
		return "hmac-wrong"
	}
	return "garbage"
}

type Mismatch struct {
	Props    []string    `json:"props"`
	What     string      `json:"what"`
	Vector   interface{} `json:"vector"`
	Expected interface{} `json:"expected"`
	Observed interface{} `json:"observed"`
	Class    string      `json:"class,omitempty"` // deviation class of the shape (Walk), if the model names one
}

type Report struct {
	Vectors    int            `json:"vectors"`
	Runs       int            `json:"runs"`
	Nontrivial int            `json:"distinct_nontrivial"`
	MismatchN  int            `json:"mismatch_count"`
	ByProp     map[string]int `json:"by_prop"`
	Mismatches []Mismatch     `json:"mismatches"`
	Samples    []interface{}  `json:"samples"`
	// Walk: real outcome per deviation class
	ClassCounts map[string]map[string]int `json:"class_counts"`
	Fixed       map[string]int            `json:"no_longer_reproduces"`
	ClassKept   map[string]int            `json:"class_mismatches"`
}

func newReport() *Report {
	return &Report{ByProp: map[string]int{}, Mismatches: []Mismatch{}, ClassCounts: map[string]map[string]int{}, Fixed: map[string]int{}, ClassKept: map[string]int{}}
}

func (r *Report) mm(m Mismatch) {
	r.MismatchN++
	for _, p := range m.Props {
		r.ByProp[p]++
	}
	if m.Class != "" && m.Class != "other" {
		// mismatches inside a named deviation class: keep a few per class, count all
		r.ClassKept[m.Class]++
		if r.ClassKept[m.Class] > 3 {
			return
		}
	}
	if len(r.Mismatches) < 120 {
		r.Mismatches = append(r.Mismatches, m)
	}
}

func decodeLine(line string, v interface{}) error {
	var inner string
	if err := json.Unmarshal([]byte(line), &inner); err != nil {
		return err
	}
	return json.Unmarshal([]byte(inner), v)
}

func eachLine(file string, fn func(string) error) error {
	f, err := os.Open(file)
	if err != nil {
		return err
	}
	defer f.Close()
	sc := bufio.NewScanner(f)
	sc.Buffer(make([]byte, 1<<20), 1<<26)
	for sc.Scan() {
		if line := sc.Text(); strings.HasPrefix(line, "\"") {
			if err := fn(line); err != nil {
				return err
			}
		}
	}
	return sc.Err()
}

// process runs the filter, converting a panic into an outcome.
func process(f *encrypt.Filter, e *eventlogger.Event) (out *eventlogger.Event, err error, panicked interface{}) {
	defer func() {
		if p := recover(); p != nil {
			panicked = p
		}
	}()
	if e != nil && e.Formatted != nil {
		e.FormattedAs("before-the-filter", []byte("original"))
	}
	out, err = f.Process(context.Background(), e)
	if out != nil && out != e && e != nil {
		// whatever later nodes store in the forwarded event must not show up in the event the filter was given
		out.FormattedAs("after-the-filter", []byte("forwarded copy only"))
		out.FormattedAs("before-the-filter", []byte("overwritten in the forwarded copy"))
		_, leaked := e.Format("after-the-filter")
		orig, _ := e.Format("before-the-filter")
		if leaked || string(orig) != "original" {
			formattedAliased.Add(1)
		}
	}
	return
}

// formattedAliased counts runs in which the forwarded event shared its format table with the original.
var formattedAliased atomic.Int64

func reportAliasing(rep *Report) {
	if n := formattedAliased.Swap(0); n > 0 {
		rep.mm(Mismatch{Props: []string{"C10"}, What: "the forwarded event shares its Formatted table with the event the filter was given: what a later node stores shows up in the original", Vector: fmt.Sprintf("%d runs", n), Expected: "private copy", Observed: "shared map"})
	}
}

// ---------------------------------------------------------------- Policy vectors

type PolicyVec struct {
	V struct {
		Cls string            `json:"cls"`
		Op  string            `json:"op"`
		Ov  map[string]string `json:"ov"`
		Wr  string            `json:"wr"`
	} `json:"v"`
	Exp struct {
		Res  string `json:"res"`
		Leaf string `json:"leaf"`
	} `json:"exp"`
}

func opOf(s string) encrypt.FilterOperation {
	switch s {
	case "none":
		return encrypt.NoOperation
	case "redact":
		return encrypt.RedactOperation
	case "encrypt":
		return encrypt.EncryptOperation
	case "hmac":
		return encrypt.HmacSha256Operation
	}
	return encrypt.UnknownOperation
}

func tagOf(cls, op string) reflect.StructTag {
	if cls == "absent" {
		return ""
	}
	if op == "absent" {
		return reflect.StructTag(fmt.Sprintf(`class:"%s"`, cls))
	}
	return reflect.StructTag(fmt.Sprintf(`class:"%s,%s"`, cls, op))
}

func policyPayload(v *PolicyVec, canary string, kind int) (reflect.Value, reflect.Type) {
	var leafT reflect.Type
	switch kind {
	case 0:
		leafT = reflect.TypeOf("")
	case 1:
		leafT = reflect.TypeOf([]byte(nil))
	case 3:
		leafT = reflect.TypeOf(&wrapperspb.StringValue{})
	case 4:
		leafT = reflect.TypeOf(&wrapperspb.BytesValue{})
	default:
		leafT = reflect.TypeOf([]string(nil))
	}
	t := reflect.StructOf([]reflect.StructField{
		{Name: "F", Type: leafT, Tag: tagOf(v.V.Cls, v.V.Op)},
		{Name: "Pub", Type: reflect.TypeOf(""), Tag: `class:"public"`},
		{Name: "N", Type: reflect.TypeOf(0)},
	})
	p := reflect.New(t)
	switch kind {
	case 0:
		p.Elem().Field(0).SetString(canary)
	case 1:
		p.Elem().Field(0).SetBytes([]byte(canary))
	case 3:
		p.Elem().Field(0).Set(reflect.ValueOf(&wrapperspb.StringValue{Value: canary}))
	case 4:
		p.Elem().Field(0).Set(reflect.ValueOf(&wrapperspb.BytesValue{Value: []byte(canary)}))
	default:
		p.Elem().Field(0).Set(reflect.ValueOf([]string{canary, canary + "#2"}))
	}
	p.Elem().Field(1).SetString("public-" + canary)
	p.Elem().Field(2).SetInt(4711)
	return p, t
}

func leafStrings(v reflect.Value) []string {
	if v.Kind() == reflect.Ptr {
		if v.IsNil() {
			return nil
		}
		switch w := v.Interface().(type) {
		case *wrapperspb.StringValue:
			return []string{w.Value}
		case *wrapperspb.BytesValue:
			return []string{string(w.Value)}
		}
		return leafStrings(v.Elem())
	}
	switch v.Kind() {
	case reflect.String:
		return []string{v.String()}
	case reflect.Slice:
		if v.Type().Elem().Kind() == reflect.Uint8 {
			return []string{string(v.Bytes())}
		}
		var out []string
		for i := 0; i < v.Len(); i++ {
			out = append(out, leafStrings(v.Index(i))...)
		}
		return out
	}
	return nil
}

// RunPolicy replays the Policy vectors.
func RunPolicy(file string, seed int64) (*Report, error) {
	rep := newReport()
	good := NewWrapper("policy")
	n := 0
	longLived := &encrypt.Filter{}
	err := eachLine(file, func(line string) error {
		v := &PolicyVec{}
		if err := decodeLine(line, v); err != nil {
			return err
		}
		rep.Vectors++
		n++
		kind := int((int64(n) + seed) % 5)
		canary := fmt.Sprintf("CANARY-%d-%d", seed, n)
		switch n % 7 { // plaintexts that look like the filter's own output must be filtered like any other
		case 3:
			canary = "encrypted:" + canary
		case 5:
			canary = "hmac-sha256:" + canary
		}
		// every third vector runs on one long-lived Filter whose exported configuration is rewritten between
		// (sequential) calls: each call is judged by the configuration in force when it is made
		f := &encrypt.Filter{}
		if n%3 == 0 {
			f = longLived
			f.Wrapper = nil
		}
		switch v.V.Wr {
		case "present":
			f.Wrapper = good
		case "failing":
			f.Wrapper = &failingWrapper{NewWrapper("failing")}
		}
		f.FilterOperationOverrides = map[encrypt.DataClassification]encrypt.FilterOperation{}
		for c, o := range v.V.Ov {
			if o != "unset" {
				f.FilterOperationOverrides[encrypt.DataClassification(c)] = opOf(o)
			}
		}
		in, _ := policyPayload(v, canary, kind)
		snap, _ := policyPayload(v, canary, kind)
		e := &eventlogger.Event{Type: "t", Payload: in.Interface(), Formatted: map[string][]byte{}}
		out, perr, pan := process(f, e)
		rep.Runs++
		if pan != nil {
			rep.mm(Mismatch{Props: []string{"C09"}, What: "Process panicked", Vector: v.V, Expected: v.Exp, Observed: fmt.Sprint(pan)})
			return nil
		}
		// C10: the input is never modified
		if fmt.Sprint(leafStrings(in.Elem().Field(0)), in.Elem().Field(1), in.Elem().Field(2)) != fmt.Sprint(leafStrings(snap.Elem().Field(0)), snap.Elem().Field(1), snap.Elem().Field(2)) {
			rep.mm(Mismatch{Props: []string{"C10"}, What: "Process modified the payload it was given", Vector: v.V, Expected: fmt.Sprint(snap.Elem().Interface()), Observed: fmt.Sprint(in.Elem().Interface())})
		}
		switch v.Exp.Res {
		case "error":
			if perr == nil || out != nil {
				rep.mm(Mismatch{Props: []string{"C09"}, What: "a failing step must yield (nil, error)", Vector: v.V, Expected: "error", Observed: fmt.Sprintf("err=%v forwarded=%v", perr, out != nil)})
			}
			return nil
		case "same":
			if perr != nil || out != e {
				rep.mm(Mismatch{Props: []string{"C10"}, What: "with all operations none the event is forwarded unchanged (same event)", Vector: v.V, Expected: "same event", Observed: fmt.Sprintf("err=%v same=%v", perr, out == e)})
			}
			return nil
		}
		if perr != nil || out == nil {
			rep.mm(Mismatch{Props: []string{"C09"}, What: "Process result", Vector: v.V, Expected: "forwarded", Observed: fmt.Sprintf("err=%v", perr)})
			return nil
		}
		rep.Nontrivial++
		ov := reflect.ValueOf(out.Payload)
		if ov.Type() != in.Type() {
			rep.mm(Mismatch{Props: []string{"C10"}, What: "dynamic type of the forwarded payload", Vector: v.V, Expected: in.Type().String(), Observed: ov.Type().String()})
			return nil
		}
		if out == e || ov.Pointer() == in.Pointer() {
			if v.Exp.Leaf != "plain" {
				rep.mm(Mismatch{Props: []string{"C10"}, What: "the filter worked on the caller's payload instead of a private copy", Vector: v.V, Expected: "copy", Observed: "same pointer"})
			}
		}
		origs := leafStrings(in.Elem().Field(0))
		outs := leafStrings(ov.Elem().Field(0))
		if len(origs) != len(outs) {
			rep.mm(Mismatch{Props: []string{"C10"}, What: "container length changed", Vector: v.V, Expected: len(origs), Observed: len(outs)})
			return nil
		}
		for i := range outs {
			form := Form(good, outs[i], []byte(origs[i]))
			if form != v.Exp.Leaf {
				props := []string{"C09"}
				if v.Exp.Leaf == "plain" {
					props = []string{"C10", "C09"}
				}
				if form == "encrypted-wrong" || form == "hmac-wrong" {
					props = append(props, "C16")
				} else if (v.Exp.Leaf == "encrypted" || v.Exp.Leaf == "hmac") && (strings.HasPrefix(outs[i], "encrypted:") || strings.HasPrefix(outs[i], "hmac-sha256:")) {
					// what comes out carries the marker of a protected value but is not one (it is the input itself, which
					// happened to look like the filter's output): it neither decrypts to the original nor is its digest
					props = append(props, "C16")
				}
				rep.mm(Mismatch{Props: props, What: "form of the classified value after the filter", Vector: v.V, Expected: v.Exp.Leaf, Observed: form})
				return nil
			}
		}
		if ov.Elem().Field(1).String() != "public-"+canary || ov.Elem().Field(2).Int() != 4711 {
			rep.mm(Mismatch{Props: []string{"C10"}, What: "public-classified or non-string value not preserved", Vector: v.V, Expected: "preserved", Observed: fmt.Sprint(ov.Elem().Interface())})
		}
		if len(rep.Samples) < 4 && n%4999 == 11 {
			rep.Samples = append(rep.Samples, v)
		}
		return nil
	})
	reportAliasing(rep)
	return rep, err
}

// ---------------------------------------------------------------- Walk vectors

type WalkVec struct {
	Path     []string `json:"path"`
	AsIs     string   `json:"asis"`
	Intended string   `json:"intended"`
	Cls      string   `json:"cls"`
}

func isLeaf(s string) bool { return s == "str" || s == "bytes" || s == "strs" || s == "bytess" }

func buildType(path []string) reflect.Type {
	switch path[0] {
	case "str":
		return reflect.TypeOf("")
	case "bytes":
		return reflect.TypeOf([]byte(nil))
	case "strs":
		return reflect.TypeOf([]string(nil))
	case "bytess":
		return reflect.TypeOf([][]byte(nil))
	case "ptr":
		return reflect.PointerTo(buildType(path[1:]))
	case "slice":
		return reflect.SliceOf(buildType(path[1:]))
	case "map":
		return reflect.MapOf(reflect.TypeOf(""), buildType(path[1:]))
	case "struct":
		tag := reflect.StructTag("")
		if isLeaf(path[1]) || (path[1] == "ptr" && isLeaf(path[2])) {
			tag = `class:"secret"`
		}
		return reflect.StructOf([]reflect.StructField{
			{Name: "F", Type: buildType(path[1:]), Tag: tag},
			{Name: "Pub", Type: reflect.TypeOf(""), Tag: `class:"public"`},
			{Name: "N", Type: reflect.TypeOf(0)},
		})
	}
	panic("bad path element " + path[0])
}

func buildValue(path []string, canary string) reflect.Value {
	t := buildType(path)
	switch path[0] {
	case "str":
		return reflect.ValueOf(canary)
	case "bytes":
		return reflect.ValueOf([]byte(canary))
	case "strs":
		return reflect.ValueOf([]string{canary, canary})
	case "bytess":
		return reflect.ValueOf([][]byte{[]byte(canary), []byte(canary)})
	case "ptr":
		p := reflect.New(t.Elem())
		p.Elem().Set(buildValue(path[1:], canary))
		return p
	case "slice":
		s := reflect.MakeSlice(t, 0, 2)
		s = reflect.Append(s, buildValue(path[1:], canary), buildValue(path[1:], canary))
		return s
	case "map":
		m := reflect.MakeMap(t)
		m.SetMapIndex(reflect.ValueOf("k1"), buildValue(path[1:], canary))
		m.SetMapIndex(reflect.ValueOf("k2"), buildValue(path[1:], canary))
		return m
	case "struct":
		v := reflect.New(t).Elem()
		v.Field(0).Set(buildValue(path[1:], canary))
		v.Field(1).SetString("public-value")
		v.Field(2).SetInt(4711)
		return v
	}
	panic("bad path")
}

// collect gathers every string / []byte reachable in v, and a structural skeleton (types, lengths, keys).
func collect(v reflect.Value, leaves *[]string, skel *[]string, depth int) {
	if depth > 12 || !v.IsValid() {
		return
	}
	switch v.Kind() {
	case reflect.String:
		*leaves = append(*leaves, v.String())
	case reflect.Ptr, reflect.Interface:
		if v.IsNil() {
			*skel = append(*skel, "nil")
			return
		}
		*skel = append(*skel, "ptr")
		collect(v.Elem(), leaves, skel, depth+1)
	case reflect.Slice:
		if v.Type().Elem().Kind() == reflect.Uint8 {
			*leaves = append(*leaves, string(v.Bytes()))
			return
		}
		*skel = append(*skel, fmt.Sprintf("slice%d", v.Len()))
		for i := 0; i < v.Len(); i++ {
			collect(v.Index(i), leaves, skel, depth+1)
		}
	case reflect.Map:
		keys := v.MapKeys()
		ks := make([]string, len(keys))
		for i, k := range keys {
			ks[i] = k.String()
		}
		sortStrings(ks)
		*skel = append(*skel, "map["+strings.Join(ks, ",")+"]")
		for _, k := range ks {
			collect(v.MapIndex(reflect.ValueOf(k)), leaves, skel, depth+1)
		}
	case reflect.Struct:
		*skel = append(*skel, "struct")
		for i := 0; i < v.NumField(); i++ {
			if v.Type().Field(i).IsExported() {
				collect(v.Field(i), leaves, skel, depth+1)
			}
		}
	default:
		*skel = append(*skel, fmt.Sprintf("%v", v.Interface()))
	}
}

func sortStrings(a []string) {
	for i := 1; i < len(a); i++ {
		for j := i; j > 0 && a[j] < a[j-1]; j-- {
			a[j], a[j-1] = a[j-1], a[j]
		}
	}
}

// RunWalk replays every payload shape.
func RunWalk(file string, seed int64) (*Report, error) {
	rep := newReport()
	w := NewWrapper("walk")
	n := 0
	err := eachLine(file, func(line string) error {
		v := &WalkVec{}
		if err := decodeLine(line, v); err != nil {
			return err
		}
		rep.Vectors++
		n++
		canary := fmt.Sprintf("CANARY-%d-%d-plaintext", seed, n)
		switch n % 5 {
		case 2:
			canary = "encrypted:" + canary
		case 4:
			canary = "hmac-sha256:" + canary
		}
		in := buildValue(v.Path, canary)
		snap := buildValue(v.Path, canary)
		f := &encrypt.Filter{Wrapper: w}
		e := &eventlogger.Event{Type: "t", Payload: in.Interface(), Formatted: map[string][]byte{}}
		out, perr, pan := process(f, e)
		rep.Runs++
		real := ""
		var outLeaves, outSkel []string
		switch {
		case pan != nil:
			real = "panic"
		case perr != nil:
			real = "error"
			if out != nil {
				rep.mm(Mismatch{Props: []string{"C09"}, What: "an event was forwarded together with an error", Vector: v.Path, Expected: "(nil, err)", Observed: "event and error"})
			}
		case out == nil:
			real = "dropped"
		default:
			collect(reflect.ValueOf(out.Payload), &outLeaves, &outSkel, 0)
			real = "filtered"
			for _, l := range outLeaves {
				if strings.Contains(l, canary) {
					real = "leak"
				}
			}
			// the rendered event must not contain the canary either
			if b, err := json.Marshal(out.Payload); err == nil && real == "filtered" && bytes.Contains(b, []byte(canary)) {
				real = "leak"
			}
		}
		cls := v.Cls
		if cls == "-" {
			cls = "none"
		}
		if rep.ClassCounts[cls] == nil {
			rep.ClassCounts[cls] = map[string]int{}
		}
		rep.ClassCounts[cls][real]++
		// C10 on every shape that did not fail: the input is untouched
		var inLeaves, inSkel, snLeaves, snSkel []string
		collect(in, &inLeaves, &inSkel, 0)
		collect(snap, &snLeaves, &snSkel, 0)
		if !reflect.DeepEqual(inLeaves, snLeaves) || !reflect.DeepEqual(inSkel, snSkel) {
			rep.mm(Mismatch{Props: []string{"C10"}, What: "Process modified the payload it was given", Vector: v.Path, Expected: snLeaves, Observed: inLeaves})
		}
		if real == "filtered" || real == "leak" {
			if reflect.TypeOf(out.Payload) != reflect.TypeOf(e.Payload) {
				rep.mm(Mismatch{Props: []string{"C10"}, What: "dynamic type of the forwarded payload", Vector: v.Path, Expected: reflect.TypeOf(e.Payload).String(), Observed: reflect.TypeOf(out.Payload).String()})
			} else if !reflect.DeepEqual(inSkel, outSkel) {
				rep.mm(Mismatch{Props: []string{"C10"}, What: "shape (lengths, keys, non-string values) of the forwarded payload", Vector: v.Path, Expected: inSkel, Observed: outSkel})
			}
			if real == "filtered" {
				rep.Nontrivial++
			}
		}
		// C09
		switch {
		case real == "leak" || real == "panic":
			rep.mm(Mismatch{Props: []string{"C09"}, What: "classified plaintext survives the filter (" + real + ")", Vector: v.Path, Expected: v.Intended, Observed: real, Class: v.Cls})
		case real == "dropped":
			rep.mm(Mismatch{Props: []string{"C09"}, What: "event silently dropped", Vector: v.Path, Expected: v.Intended, Observed: real})
		case v.AsIs == "leak" || v.AsIs == "panic":
			rep.Fixed[v.Cls]++
		}
		if len(rep.Samples) < 4 && n%197 == 5 {
			rep.Samples = append(rep.Samples, v)
		}
		return nil
	})
	reportAliasing(rep)
	return rep, err
}
