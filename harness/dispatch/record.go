// Package dispatch records executions of the real Broker.Send through the
// verif hooks in graph.go (one log per goroutine), steers them (cancellation at a
// chosen hook, schedule perturbation, nodes held inside Process) and evaluates
// the per-execution oracles of C01, C02 and C03 on the harness nodes' own logs.
package dispatch

import (
	"context"
	"errors"
	"fmt"
	"math/rand"
	"reflect"
	"runtime"
	"sort"
	"strings"
	"sync"
	"sync/atomic"
	"time"

	"github.com/hashicorp/eventlogger"
	multierror "github.com/hashicorp/go-multierror"
)

// ---------------------------------------------------------------- scenario

// NodeSpec describes one harness node object.
type NodeSpec struct {
	ID   string `json:"id"`
	Kind string `json:"kind"` // filter, formatter, ff, sink
	Beh  string `json:"beh"`  // pass, replace, drop, err
	// LeafPass: a sink that returns the event it was given instead of nil (allowed for a leaf)
	LeafPass bool `json:"leaf_pass,omitempty"`
}

// PipeSpec is one registered pipeline.
type PipeSpec struct {
	PID   string   `json:"pid"`
	Type  string   `json:"type"`
	Nodes []string `json:"nodes"` // node ids
}

// CancelAt selects where the context is cancelled.
type CancelAt struct {
	Mode  string `json:"mode"`  // never, before, hook
	Point string `json:"point"` // hook point name
	P     int    `json:"p"`     // pipeline index (1-based) for dp.* points, 0 = any
	K     int    `json:"k"`
	Nth   int    `json:"nth"` // n-th matching hit (1-based)
}

// Scenario is one Send on a freshly configured Broker.
type Scenario struct {
	ID       int        `json:"id"`
	Seed     int64      `json:"seed"`
	Nodes    []NodeSpec `json:"nodes"`
	Pipes    []PipeSpec `json:"pipes"` // pipelines of the sent type come first in model order
	Extra    []PipeSpec `json:"extra"` // history: registered and removed again / overwritten before the Send
	SendType string     `json:"send_type"`
	Thr      int        `json:"thr"`
	ThrS     int        `json:"thr_s"`
	Cancel   CancelAt   `json:"cancel"`
	Hold     bool       `json:"hold"`    // hold every node return after the cancellation until Send has returned
	Perturb  int        `json:"perturb"` // 0 = none, else 1/Perturb of the hooks yield or sleep
	StopTime bool       `json:"stop_time"`
}

// ---------------------------------------------------------------- nodes

// NodeErr is the error a harness node returns; it identifies the node. Some nodes fail with an error that
// wraps a context error of their own (e.g. a sink with an internal timeout) although the Send's context is live.
type NodeErr struct {
	ID    string
	Inner error
}

func (e *NodeErr) Error() string { return "harness node " + e.ID + " failed" }
func (e *NodeErr) Unwrap() error { return e.Inner }

type call struct {
	Node     *hnode
	In, Out  *eventlogger.Event
	Err      error
	Enter    int64
	Leave    int64
	InType   eventlogger.EventType
	InPay    interface{}
	InTime   time.Time
	InFmtLen int
}

type hnode struct {
	spec NodeSpec
	run  *Run
	err  *NodeErr
}

type replaced struct {
	By   string
	Orig interface{}
}

func (n *hnode) Process(ctx context.Context, e *eventlogger.Event) (*eventlogger.Event, error) {
	r := n.run
	c := &call{Node: n, In: e, Enter: atomic.AddInt64(&r.seq, 1)}
	if e != nil {
		c.InType, c.InPay, c.InTime, c.InFmtLen = e.Type, e.Payload, e.CreatedAt, len(e.Formatted)
	}
	atomic.AddInt64(&r.inflight, 1)
	r.maybeHold()
	var out *eventlogger.Event
	var err error
	switch n.spec.Beh {
	case "pass":
		out = e
	case "replace":
		out = &eventlogger.Event{Type: e.Type, CreatedAt: e.CreatedAt, Formatted: map[string][]byte{}, Payload: &replaced{By: n.spec.ID, Orig: e.Payload}}
	case "drop":
	case "err":
		err = n.err
	}
	if n.spec.Kind == "sink" && n.spec.Beh != "err" && !n.spec.LeafPass {
		out = nil // sinks are leaves
	}
	r.maybeHold()
	if n.spec.Beh == "err" {
		// some failing nodes hand back an event together with their error (it must not be forwarded), and some
		// report the Send's own context error when it is done by the time they return
		ne := &NodeErr{ID: n.spec.ID, Inner: n.err.Inner}
		h := 0
		for _, ch := range n.spec.ID {
			h += int(ch)
		}
		if ce := ctx.Err(); ce != nil && h%2 == 0 {
			ne.Inner = ce
			if h%4 == 0 {
				ne.Inner = fmt.Errorf("gave up: %w", ce)
			}
		}
		err = ne
		// ... and some report a list of errors (go-multierror), with two members or with none: whatever a node
		// returns as its error is one warning, that very value
		switch h % 5 {
		case 1:
			err = &multierror.Error{Errors: []error{ne, fmt.Errorf("a second reason of node %s", n.spec.ID)}}
		case 2:
			err = &multierror.Error{}
		}
		if h%3 != 0 {
			out = e
		}
	}
	c.Out, c.Err = out, err
	c.Leave = atomic.AddInt64(&r.seq, 1)
	r.mu.Lock()
	r.calls = append(r.calls, c)
	r.mu.Unlock()
	atomic.AddInt64(&r.inflight, -1)
	return out, err
}
func (n *hnode) Reopen() error { return nil }
func (n *hnode) Type() eventlogger.NodeType {
	switch n.spec.Kind {
	case "filter":
		return eventlogger.NodeTypeFilter
	case "formatter":
		return eventlogger.NodeTypeFormatter
	case "ff":
		return eventlogger.NodeTypeFormatterFilter
	case "sink":
		return eventlogger.NodeTypeSink
	}
	return 0
}

// ---------------------------------------------------------------- recording

// Event is one logged step of a goroutine.
type Event map[string]interface{}

// Run is the state of one recorded Send.
type Run struct {
	sc       *Scenario
	mu       sync.Mutex
	logs     map[string][]Event
	seq      int64
	calls    []*call
	inflight int64

	ch           uintptr            // the Send's status channel
	inst         map[uintptr][2]int // linkedNode -> (p,k)
	assigned     map[int]bool
	evid         map[*eventlogger.Event]int
	hits         int
	cancel       context.CancelFunc
	cancelled    atomic.Bool
	release      chan struct{}
	rng          *rand.Rand
	rngMu        sync.Mutex
	foreign      []string
	inconclusive bool // the oracle's search was cut off: this execution is not judged
	nodes        map[string]*hnode
	points       map[string]int
}

func (r *Run) maybeHold() {
	if r.sc.Hold && r.cancelled.Load() {
		<-r.release
	}
}

func (r *Run) log(g string, ev Event) {
	r.mu.Lock()
	r.logs[g] = append(r.logs[g], ev)
	r.mu.Unlock()
}

func goName(p, k int) string {
	if k == 1 {
		return "rng"
	}
	return fmt.Sprintf("c%d_%d", p, k)
}

// chain reads the node ids and linkedNode pointers of a pipeline from its root.
func chain(root reflect.Value) (ids []string, ptrs []uintptr) {
	v := root
	for v.IsValid() && v.Kind() == reflect.Ptr && !v.IsNil() {
		ptrs = append(ptrs, v.Pointer())
		ids = append(ids, v.Elem().FieldByName("nodeID").String())
		nx := v.Elem().FieldByName("next")
		if nx.Len() == 0 {
			break
		}
		v = nx.Index(0)
	}
	return
}

func (r *Run) eventID(e *eventlogger.Event) int {
	if e == nil {
		return 0
	}
	r.mu.Lock()
	defer r.mu.Unlock()
	if id, ok := r.evid[e]; ok {
		return id
	}
	id := len(r.evid) + 1
	r.evid[e] = id
	return id
}

func (r *Run) instOf(v interface{}) (int, int, bool) {
	ptr := reflect.ValueOf(v).Pointer()
	r.mu.Lock()
	pk, ok := r.inst[ptr]
	r.mu.Unlock()
	return pk[0], pk[1], ok
}

func (r *Run) perturb() {
	if r.sc.Perturb <= 0 {
		return
	}
	r.rngMu.Lock()
	x := r.rng.Intn(r.sc.Perturb * 4)
	r.rngMu.Unlock()
	switch {
	case x == 0:
		time.Sleep(time.Duration(20+x) * time.Microsecond)
	case x < 4:
		runtime.Gosched()
	}
}

// hook is installed as eventlogger.VerifHook for the duration of the Send.
func (r *Run) hook(point string, args ...interface{}) {
	if len(args) == 0 {
		return
	}
	chv := reflect.ValueOf(args[0])
	if chv.Kind() != reflect.Chan {
		return // file sink hooks etc.
	}
	ch := chv.Pointer()
	r.mu.Lock()
	if r.ch == 0 {
		r.ch = ch
	}
	mine := r.ch == ch
	r.points[point]++
	r.mu.Unlock()
	if !mine {
		return
	}
	r.perturb()
	var g string
	var ev Event
	p, k := 0, 0
	switch point {
	case "rng.visit":
		ids, ptrs := chain(reflect.ValueOf(args[1]))
		p = r.assignPipe(ids, ptrs)
		g, ev = "rng", Event{"e": "visit", "p": p}
	case "rng.stop":
		g, ev = "rng", Event{"e": "stop"}
	case "rng.end":
		g, ev = "rng", Event{"e": "rangeend"}
	case "rng.waitdone":
		g, ev = "rng", Event{"e": "waitdone"}
	case "rng.close":
		g, ev = "rng", Event{"e": "close"}
	case "coll.ctx":
		g, ev = "coll", Event{"e": "ctx"}
	case "coll.closed":
		g, ev = "coll", Event{"e": "closed"}
	case "coll.recv":
		g, ev = "coll", r.recvEvent(args[1])
	default: // dp.*
		var ok bool
		p, k, ok = r.instOf(args[1])
		if !ok {
			r.mu.Lock()
			r.foreign = append(r.foreign, point+": unknown linked node")
			r.mu.Unlock()
			return
		}
		g = goName(p, k)
		switch point {
		case "dp.call":
			e, _ := args[2].(*eventlogger.Event)
			ev = Event{"e": "call", "p": p, "k": k, "ein": r.eventID(e)}
		case "dp.ret":
			e, _ := args[2].(*eventlogger.Event)
			var err error
			if args[3] != nil {
				err, _ = args[3].(error)
			}
			ev = Event{"e": "ret", "p": p, "k": k}
			switch {
			case err != nil:
				ev["o"], ev["eout"] = "err", 0
			case e == nil:
				ev["o"], ev["eout"] = "drop", 0
			default:
				r.mu.Lock()
				_, seen := r.evid[e]
				r.mu.Unlock()
				id := r.eventID(e)
				if seen {
					ev["o"] = "pass"
				} else {
					ev["o"] = "replace"
				}
				ev["eout"] = id
			}
		case "dp.spawn":
			ev = Event{"e": "spawn", "p": p, "k": k}
		case "dp.selctx":
			ev = Event{"e": "selctx", "p": p, "k": k}
		case "dp.sent":
			ev = Event{"e": "sent", "p": p, "k": k}
		case "dp.exit":
			ev = Event{"e": "exit", "p": p, "k": k}
		default:
			return
		}
	}
	r.log(g, ev)
	// cancellation injected synchronously by the goroutine that reached the chosen position
	c := r.sc.Cancel
	if c.Mode == "hook" && c.Point == point && (c.P == 0 || (c.P == p && c.K == k)) && !r.cancelled.Load() {
		r.mu.Lock()
		r.hits++
		fire := r.hits == c.Nth
		r.mu.Unlock()
		if fire {
			r.cancelled.Store(true)
			r.cancel()
			r.log(g, Event{"e": "cancel"})
		}
	}
}

func (r *Run) assignPipe(ids []string, ptrs []uintptr) int {
	r.mu.Lock()
	defer r.mu.Unlock()
	key := strings.Join(ids, ",")
	for i, ps := range r.sc.Pipes {
		if r.assigned[i] || strings.Join(ps.Nodes, ",") != key {
			continue
		}
		r.assigned[i] = true
		for k, ptr := range ptrs {
			r.inst[ptr] = [2]int{i + 1, k + 1}
		}
		return i + 1
	}
	r.foreign = append(r.foreign, "traversal of a pipeline that is not registered for the sent type: "+key)
	return 0
}

func (r *Run) recvEvent(s interface{}) Event {
	v := reflect.ValueOf(s)
	ev := Event{"e": "recv", "kind": "empty", "nid": ""}
	if c := v.FieldByName("complete"); c.Len() > 0 {
		ev["kind"], ev["nid"] = "complete", c.Index(0).String()
		if c.Len() > 1 {
			ev["kind"] = "multi"
		}
	}
	if w := v.FieldByName("Warnings"); w.Len() > 0 {
		ev["kind"] = "warn"
		if err, ok := w.Index(0).Interface().(error); ok {
			var ne *NodeErr
			if errors.As(err, &ne) {
				ev["nid"] = ne.ID
			} else {
				ev["nid"] = "?"
			}
		}
	}
	return ev
}

// ---------------------------------------------------------------- execution

// Result of one scenario.
type Result struct {
	ID           int                    `json:"id"`
	Cfg          map[string]interface{} `json:"cfg"`
	Logs         map[string][]Event     `json:"logs"`
	Returned     bool                   `json:"-"`
	Failures     []Failure              `json:"-"`
	Points       map[string]int         `json:"-"`
	Cancelled    bool                   `json:"-"`
	Inconclusive bool                   `json:"-"`
}

// Failure is an oracle failure: Prop is the property it belongs to.
type Failure struct {
	Prop string `json:"prop"`
	What string `json:"what"`
}

var hookMu sync.Mutex

func graphGoroutines() int {
	buf := make([]byte, 1<<20)
	n := runtime.Stack(buf, true)
	cnt := 0
	for _, g := range strings.Split(string(buf[:n]), "\n\n") {
		if strings.Contains(g, "eventlogger.(*graph)") {
			cnt++
		}
	}
	return cnt
}

// Execute runs the scenario against a fresh real Broker.
func Execute(sc *Scenario) *Result {
	hookMu.Lock()
	defer hookMu.Unlock()
	res := &Result{ID: sc.ID}
	fail := func(prop, f string, a ...interface{}) {
		res.Failures = append(res.Failures, Failure{Prop: prop, What: fmt.Sprintf(f, a...)})
	}
	r := &Run{sc: sc, logs: map[string][]Event{}, inst: map[uintptr][2]int{}, assigned: map[int]bool{}, evid: map[*eventlogger.Event]int{},
		release: make(chan struct{}), rng: rand.New(rand.NewSource(sc.Seed)), nodes: map[string]*hnode{}, points: map[string]int{}}
	b, _ := eventlogger.NewBroker()
	stopped := time.Date(2020, 2, 3, 4, 5, 6, 7, time.UTC)
	if sc.StopTime {
		b.StopTimeAt(stopped)
	}
	for _, ns := range sc.Nodes {
		n := &hnode{spec: ns, run: r, err: &NodeErr{ID: ns.ID}}
		switch len(ns.ID) % 3 {
		case 1:
			n.err.Inner = context.DeadlineExceeded
		case 2:
			n.err.Inner = context.Canceled
		}
		r.nodes[ns.ID] = n
		if err := b.RegisterNode(eventlogger.NodeID(ns.ID), n); err != nil {
			fail("SETUP", "RegisterNode %s: %v", ns.ID, err)
		}
	}
	reg := func(ps PipeSpec) error {
		ids := make([]eventlogger.NodeID, len(ps.Nodes))
		for i, s := range ps.Nodes {
			ids[i] = eventlogger.NodeID(s)
		}
		return b.RegisterPipeline(eventlogger.Pipeline{PipelineID: eventlogger.PipelineID(ps.PID), EventType: eventlogger.EventType(ps.Type), NodeIDs: ids})
	}
	// history: extra pipelines are registered first, then overwritten by a final one with the same id or removed
	final := map[string]bool{}
	for _, ps := range sc.Pipes {
		final[ps.Type+"/"+ps.PID] = true
	}
	for _, ps := range sc.Extra {
		if err := reg(ps); err != nil {
			fail("SETUP", "RegisterPipeline(extra) %s: %v", ps.PID, err)
		}
	}
	for _, ps := range sc.Extra {
		if !final[ps.Type+"/"+ps.PID] && strings.HasPrefix(ps.PID, "x") {
			if err := b.RemovePipeline(eventlogger.EventType(ps.Type), eventlogger.PipelineID(ps.PID)); err != nil {
				fail("SETUP", "RemovePipeline %s: %v", ps.PID, err)
			}
		}
	}
	for _, ps := range sc.Pipes {
		if err := reg(ps); err != nil {
			fail("SETUP", "RegisterPipeline %s: %v", ps.PID, err)
		}
	}
	if err := b.SetSuccessThreshold(eventlogger.EventType(sc.SendType), sc.Thr); err != nil {
		fail("SETUP", "SetSuccessThreshold: %v", err)
	}
	if err := b.SetSuccessThresholdSinks(eventlogger.EventType(sc.SendType), sc.ThrS); err != nil {
		fail("SETUP", "SetSuccessThresholdSinks: %v", err)
	}

	// every other scenario's context is cancelled with a cause of the caller's (context.WithCancelCause): what Send
	// reports is still the context's error
	ctx, cancel := context.WithCancel(context.Background())
	if len(sc.Pipes)%2 == 1 {
		c2, cancelCause := context.WithCancelCause(context.Background())
		ctx, cancel = c2, func() { cancelCause(errors.New("harness: the request was abandoned")) }
	}
	r.cancel = cancel
	defer cancel()
	if sc.Cancel.Mode == "before" {
		r.cancelled.Store(true)
		cancel()
		r.log("main", Event{"e": "cancel"})
	}
	base := graphGoroutines()
	eventlogger.VerifHook = r.hook
	payload := &struct{ N int }{sc.ID}
	type sret struct {
		st  eventlogger.Status
		err error
		pan interface{}
	}
	done := make(chan sret, 1)
	go func() {
		var sr sret
		defer func() {
			if p := recover(); p != nil {
				sr.pan = p
			}
			done <- sr
		}()
		sr.st, sr.err = b.Send(ctx, eventlogger.EventType(sc.SendType), payload)
	}()
	var sr sret
	select {
	case sr = <-done:
		res.Returned = true
	case <-time.After(12 * time.Second):
		held := atomic.LoadInt64(&r.inflight)
		fail("C03", "Send did not return within 12s (cancel=%+v, nodes inside Process: %d, context cancelled: %v)", sc.Cancel, held, r.cancelled.Load())
	}
	// let held nodes go, then wait for the Send's goroutines to finish
	close(r.release)
	if !res.Returned {
		select {
		case sr = <-done:
		case <-time.After(3 * time.Second):
		}
	}
	deadline := time.Now().Add(10 * time.Second)
	for {
		if atomic.LoadInt64(&r.inflight) == 0 && graphGoroutines() <= base {
			break
		}
		if time.Now().After(deadline) {
			if atomic.LoadInt64(&r.inflight) == 0 {
				fail("C03", "goroutines created by Send are still alive after every node returned (cancel=%+v)", sc.Cancel)
			}
			break
		}
		time.Sleep(2 * time.Millisecond)
	}
	eventlogger.VerifHook = nil
	if sr.pan != nil {
		fail("C03", "Send panicked: %v", sr.pan)
	}
	res.Cancelled = r.cancelled.Load()
	res.Points = r.points

	// ---- the "return" event and the trace
	if res.Returned && sr.pan == nil {
		cm, sm := map[string]int{}, map[string]int{}
		for _, id := range sr.st.Complete() {
			cm[string(id)]++
		}
		for _, id := range sr.st.CompleteSinks() {
			sm[string(id)]++
		}
		ev := Event{"e": "return", "nc": len(sr.st.Complete()), "ns": len(sr.st.CompleteSinks()), "nw": len(sr.st.Warnings),
			"err": sr.err != nil, "wraps": sr.err != nil && errors.Is(sr.err, context.Canceled)}
		if len(cm) > 0 {
			ev["complete"] = cm
		}
		if len(sm) > 0 {
			ev["csinks"] = sm
		}
		r.log("coll", ev)
	}
	res.Logs = r.logs
	res.Cfg = r.modelCfg()
	for _, f := range r.foreign {
		fail("C01", "%s", f)
	}
	if res.Returned && sr.pan == nil {
		r.oracles(sr.st, sr.err, payload, stopped, fail)
		res.Inconclusive = r.inconclusive
	}
	if res.Returned {
		// aftermath: a finished Send (cancelled or not) holds nothing: the thresholds of its type can be set again
		// and a further Send on the same Broker returns
		fin := make(chan struct{})
		go func() {
			defer close(fin)
			t := eventlogger.EventType(sc.SendType)
			if thr, ok := b.SuccessThreshold(t); ok {
				b.SetSuccessThreshold(t, thr)
			}
			if ths, ok := b.SuccessThresholdSinks(t); ok {
				b.SetSuccessThresholdSinks(t, ths)
			}
			b.Send(context.Background(), "aftermath: a type nobody registered", 1)
			b.IsAnyPipelineRegistered(t)
		}()
		select {
		case <-fin:
		case <-time.After(12 * time.Second):
			fail("C03", "after this Send had returned (cancel=%+v), setting the type's thresholds again / a further Send on the same Broker did not return within 12s: the finished Send still holds a lock", sc.Cancel)
		}
	}
	return res
}

const maxPipes, maxLen = 4, 5

func (r *Run) modelCfg() map[string]interface{} {
	lens := make([]int, maxPipes)
	sink := make([][]bool, maxPipes)
	nid := make([][]string, maxPipes)
	for p := 0; p < maxPipes; p++ {
		sink[p] = make([]bool, maxLen)
		nid[p] = make([]string, maxLen)
		for k := range nid[p] {
			nid[p][k] = "-"
		}
		if p < len(r.sc.Pipes) {
			lens[p] = len(r.sc.Pipes[p].Nodes)
			for k, id := range r.sc.Pipes[p].Nodes {
				nid[p][k] = id
				sink[p][k] = r.nodes[id].spec.Kind == "sink"
			}
		}
	}
	return map[string]interface{}{"len": lens, "sink": sink, "nid": nid, "thr": r.sc.Thr, "thrS": r.sc.ThrS}
}

// ---------------------------------------------------------------- oracles

// oracles evaluates the enforced clauses of C01 and C02 on the nodes' own logs
// (independent of the hooks) and on what Send returned.
func (r *Run) oracles(st eventlogger.Status, serr error, payload interface{}, stopped time.Time, fail func(string, string, ...interface{})) {
	sc := r.sc
	cancelled := r.cancelled.Load()
	calls := append([]*call{}, r.calls...)
	sort.Slice(calls, func(i, j int) bool { return calls[i].Enter < calls[j].Enter })

	// Calls are matched to pipeline positions: position k of pipeline p consumes one not-yet-consumed
	// call of node Nodes[k] whose input is the event returned by the call consumed for k-1 (the Send's
	// own event for k = 0) and which started after that call returned. With shared pass-through nodes
	// several assignments are possible; the execution is faulted only if no pipeline order explains it.
	type trav struct {
		pipe    int
		ended   string // "complete:<id>" or "warn:<id>"
		sinkEnd bool
	}
	var rootEv *eventlogger.Event
	if len(calls) > 0 {
		rootEv = calls[0].In
	}
	// Exact search (backtracking) for an assignment of calls to pipeline positions with the fewest faults: with
	// shared pass-through nodes many calls look alike (same node, same event pointer) and only their timing tells
	// which traversal they belong to, so a greedy choice can paint itself into a corner.
	type result struct {
		fails []Failure
		ends  []trav
	}
	// what the Status says (C02), compared with the ends of the traversals of every candidate assignment
	gotC, gotS, gotW := map[string]int{}, map[string]int{}, map[string]int{}
	for _, id := range st.Complete() {
		gotC[string(id)]++
	}
	for _, id := range st.CompleteSinks() {
		gotS[string(id)]++
	}
	owner := map[error]string{} // the error values the nodes returned during this Send, by identity
	for _, c := range calls {
		if c.Err != nil {
			owner[c.Err] = c.Node.spec.ID
		}
	}
	for _, w := range st.Warnings {
		var ne *NodeErr
		if id, ok := owner[w]; ok {
			gotW[id]++
		} else if errors.As(w, &ne) {
			gotW[ne.ID]++
		} else {
			fail("C02", "warning %q is not an error returned by a node during this Send", w)
		}
	}
	statusFails := func(ends []trav) []Failure {
		var fs []Failure
		wantC, wantW := map[string]int{}, map[string]int{}
		for _, e := range ends {
			kind, id, _ := strings.Cut(e.ended, ":")
			if kind == "complete" {
				wantC[id]++
			} else {
				wantW[id]++
			}
		}
		sub := func(name string, got, want map[string]int) {
			for id, n := range got {
				if n > want[id] {
					fs = append(fs, Failure{"C02", fmt.Sprintf("%s reports %s %d time(s) but only %d traversal(s) ended that way", name, id, n, want[id])})
				}
			}
			if !cancelled {
				for id, n := range want {
					if got[id] != n {
						fs = append(fs, Failure{"C02", fmt.Sprintf("%s reports %s %d time(s), %d traversal(s) ended that way (context not cancelled)", name, id, got[id], n)})
					}
				}
			}
		}
		sub("Complete", gotC, wantC)
		sub("Warnings", gotW, wantW)
		return fs
	}
	var best *result
	exhausted := false // the search gave up before it had seen every assignment
	used := map[*call]bool{}
	var curFails []Failure
	var curEnds []trav
	nodes := 0
	var rec func(pi, k int, prev *call)
	finish := func() {
		fs := append([]Failure{}, curFails...)
		for _, c := range calls {
			if !used[c] {
				fs = append(fs, Failure{Prop: "C01", What: fmt.Sprintf("node %s was invoked outside any traversal of a pipeline registered for %s (invoked twice, after its predecessor dropped/failed, with the wrong event, or for a foreign pipeline)", c.Node.spec.ID, sc.SendType)})
			}
		}
		fs = append(fs, statusFails(curEnds)...)
		if best == nil || len(fs) < len(best.fails) {
			best = &result{fails: fs, ends: append([]trav{}, curEnds...)}
		}
	}
	rec = func(pi, k int, prev *call) {
		nodes++
		if nodes > 3000000 {
			exhausted = true
		}
		if best != nil && (len(best.fails) == 0 || len(curFails) >= len(best.fails) || exhausted) {
			return
		}
		if pi == len(sc.Pipes) {
			finish()
			return
		}
		ps := sc.Pipes[pi]
		id := ps.Nodes[k]
		tried := false
		for _, c := range calls {
			if used[c] || c.Node.spec.ID != id {
				continue
			}
			if k == 0 {
				if c.In != rootEv {
					continue
				}
			} else if c.In != prev.Out || c.Enter < prev.Leave {
				continue
			}
			tried = true
			used[c] = true
			nf := len(curFails)
			if k == 0 {
				if string(c.InType) != sc.SendType {
					curFails = append(curFails, Failure{"C01", fmt.Sprintf("first node saw type %q, sent %q", c.InType, sc.SendType)})
				}
				if c.InPay != payload {
					curFails = append(curFails, Failure{"C01", "first node saw a different payload"})
				}
				if c.InTime.IsZero() || (sc.StopTime && !c.InTime.Equal(stopped)) {
					curFails = append(curFails, Failure{"C01", fmt.Sprintf("first node saw creation time %v", c.InTime)})
				}
				if c.InFmtLen != 0 {
					curFails = append(curFails, Failure{"C01", "first node saw a non-empty format table"})
				}
			}
			last := k == len(ps.Nodes)-1
			switch {
			case c.Err != nil:
				curEnds = append(curEnds, trav{pipe: pi, ended: "warn:" + id})
				rec(pi+1, 0, nil)
				curEnds = curEnds[:len(curEnds)-1]
			case c.Out == nil || last:
				curEnds = append(curEnds, trav{pipe: pi, ended: "complete:" + id, sinkEnd: c.Node.spec.Kind == "sink"})
				rec(pi+1, 0, nil)
				curEnds = curEnds[:len(curEnds)-1]
			default:
				rec(pi, k+1, c)
			}
			curFails = curFails[:nf]
			used[c] = false
			if best != nil && len(best.fails) == 0 {
				return
			}
		}
		// the position has no call
		if !tried || cancelled {
			nf := len(curFails)
			if !cancelled {
				if k == 0 {
					curFails = append(curFails, Failure{"C01", fmt.Sprintf("pipeline %s (%s) registered for type %s was not traversed", ps.PID, strings.Join(ps.Nodes, ","), sc.SendType)})
				} else {
					curFails = append(curFails, Failure{"C01", fmt.Sprintf("pipeline %s: node %s (position %d) was not invoked although node %s returned an event", ps.PID, id, k+1, ps.Nodes[k-1])})
				}
			}
			rec(pi+1, 0, nil)
			curFails = curFails[:nf]
		}
	}
	rec(0, 0, nil)
	if best != nil && len(best.fails) > 0 && exhausted {
		// many interchangeable calls (one pass-through node listed several times): the assignment search was cut off
		// before it had tried everything, so "no assignment explains the calls" is not established: no verdict here
		r.inconclusive = true
		best = nil
	}
	if best != nil {
		for _, f := range best.fails {
			fail(f.Prop, "%s", f.What)
		}
	}
	if r.inconclusive {
		return
	}
	// complete-sinks is exactly the sink members of complete
	for id, n := range gotS {
		if n > gotC[id] || r.nodes[id] == nil || r.nodes[id].spec.Kind != "sink" {
			fail("C02", "CompleteSinks lists %s which is not a sink reported complete", id)
		}
	}
	for id, n := range gotC {
		if r.nodes[id] != nil && r.nodes[id].spec.Kind == "sink" && gotS[id] != n {
			fail("C02", "sink %s reported complete %d time(s) but in CompleteSinks %d time(s)", id, n, gotS[id])
		}
	}
	if !cancelled && len(st.Complete())+len(st.Warnings) != len(sc.Pipes) {
		fail("C02", "completes (%d) + warnings (%d) != registered pipelines (%d) although the context was not cancelled", len(st.Complete()), len(st.Warnings), len(sc.Pipes))
	}
	short := len(st.Complete()) < sc.Thr || len(st.CompleteSinks()) < sc.ThrS
	if short != (serr != nil) {
		fail("C02", "Send error=%v but completes=%d (threshold %d), complete sinks=%d (threshold %d)", serr != nil, len(st.Complete()), sc.Thr, len(st.CompleteSinks()), sc.ThrS)
	}
	if serr != nil {
		wraps := errors.Is(serr, context.Canceled)
		selfCancel := sc.Cancel.Mode == "before" || (sc.Cancel.Mode == "hook" && strings.HasPrefix(sc.Cancel.Point, "coll."))
		if selfCancel && cancelled && !wraps {
			fail("C02", "Send's error does not wrap the context's error although the context was done before the collector finished")
		}
		if !cancelled && wraps {
			fail("C02", "Send's error wraps a context error although the context was never cancelled")
		}
	}
}
