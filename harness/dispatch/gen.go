package dispatch

import (
	"fmt"
	"math/rand"
)

var behs = []string{"pass", "pass", "pass", "replace", "drop", "err"}

// genConfig draws pipelines (0..4 for the sent type, 2..5 nodes, nodes shared
// between pipelines, up to 3 event types) and node behaviours.
func genConfig(rng *rand.Rand, id int, maxP, maxL int) *Scenario {
	return genConfigP(rng, id, maxP, maxL, -1)
}

// genConfigP: profile -1 = random behaviours; 0 = every node passes; 1 = one node per pipeline drops;
// 2 = one node per pipeline fails; 3 = replace everywhere.
func genConfigP(rng *rand.Rand, id int, maxP, maxL int, profile int) *Scenario {
	sc := &Scenario{ID: id, Seed: rng.Int63(), SendType: "t1"}
	nTypes := 1 + rng.Intn(3)
	n := rng.Intn(maxP + 1)
	if rng.Intn(8) > 0 && n == 0 {
		n = 1 + rng.Intn(maxP)
	}
	nodes := map[string]NodeSpec{}
	add := func(id, kind string) string {
		if _, ok := nodes[id]; !ok {
			b := behs[rng.Intn(len(behs))]
			if kind == "sink" && b == "replace" {
				b = "pass"
			}
			nodes[id] = NodeSpec{ID: id, Kind: kind, Beh: b, LeafPass: kind == "sink" && rng.Intn(3) == 0}
		}
		return id
	}
	share := rng.Intn(3) // 0: nothing shared, 1: shared tail, 2: everything drawn from a small pool
	mk := func(pi int, typ string) PipeSpec {
		l := 2 + rng.Intn(maxL-1)
		ps := PipeSpec{PID: fmt.Sprintf("p%d", pi), Type: typ}
		for k := 0; k < l-2; k++ {
			var nid string
			switch share {
			case 0:
				nid = fmt.Sprintf("f%d_%d", pi, k)
			case 1:
				nid = fmt.Sprintf("f%d_%d", pi, k)
				if rng.Intn(3) == 0 {
					nid = fmt.Sprintf("fs%d", rng.Intn(2))
				}
			default:
				nid = fmt.Sprintf("fs%d", rng.Intn(3))
			}
			kind := "filter"
			if rng.Intn(12) == 0 {
				kind = "sink" // a sink-typed node in the middle is accepted by the broker
			}
			if _, ok := nodes[nid]; ok {
				kind = nodes[nid].Kind
			}
			ps.Nodes = append(ps.Nodes, add(nid, kind))
		}
		fm, sk := fmt.Sprintf("m%d", pi), fmt.Sprintf("s%d", pi)
		if share > 0 && rng.Intn(2) == 0 {
			fm, sk = "m", "s"
		}
		fk := "formatter"
		if rng.Intn(3) == 0 {
			fk = "ff"
		}
		if _, ok := nodes[fm]; ok {
			fk = nodes[fm].Kind
		}
		ps.Nodes = append(ps.Nodes, add(fm, fk), add(sk, "sink"))
		return ps
	}
	for i := 1; i <= n; i++ {
		sc.Pipes = append(sc.Pipes, mk(i, "t1"))
	}
	// pipelines of other types must never see the event; they are registered and stay registered
	for t := 2; t <= nTypes; t++ {
		for j := 0; j < 1+rng.Intn(2); j++ {
			ps := mk(10*t+j, fmt.Sprintf("t%d", t))
			ps.PID = fmt.Sprintf("o%d_%d", t, j)
			sc.Extra = append(sc.Extra, ps)
		}
	}
	// history: a pipeline that is registered and removed again, one that is overwritten by its final version
	if rng.Intn(2) == 0 {
		ps := mk(90, "t1")
		ps.PID = "x90"
		sc.Extra = append(sc.Extra, ps)
	}
	if n > 0 && rng.Intn(2) == 0 {
		ps := mk(91, "t1")
		ps.PID = sc.Pipes[rng.Intn(n)].PID
		sc.Extra = append(sc.Extra, ps)
	}
	if profile >= 0 {
		for id, ns := range nodes {
			ns.Beh = "pass"
			if profile == 3 && ns.Kind != "sink" {
				ns.Beh = "replace"
			}
			nodes[id] = ns
		}
		if profile == 1 || profile == 2 {
			for _, ps := range sc.Pipes {
				id := ps.Nodes[rng.Intn(len(ps.Nodes))]
				ns := nodes[id]
				ns.Beh = map[int]string{1: "drop", 2: "err"}[profile]
				nodes[id] = ns
			}
		}
	}
	for _, ns := range nodes {
		sc.Nodes = append(sc.Nodes, ns)
	}
	sc.Thr = rng.Intn(n + 2)
	sc.ThrS = rng.Intn(n + 2)
	sc.StopTime = rng.Intn(3) == 0
	return sc
}

// positions lists every (hook point, instance) position of the configuration.
func positions(sc *Scenario) []CancelAt {
	var ps []CancelAt
	for _, pt := range []string{"rng.end", "rng.waitdone", "rng.close", "coll.closed"} {
		ps = append(ps, CancelAt{Mode: "hook", Point: pt, Nth: 1})
	}
	for n := 1; n <= len(sc.Pipes); n++ {
		ps = append(ps, CancelAt{Mode: "hook", Point: "coll.recv", Nth: n})
		ps = append(ps, CancelAt{Mode: "hook", Point: "rng.visit", Nth: n})
	}
	for p, pipe := range sc.Pipes {
		for k := range pipe.Nodes {
			for _, pt := range []string{"dp.call", "dp.ret", "dp.spawn", "dp.sent", "dp.exit"} {
				ps = append(ps, CancelAt{Mode: "hook", Point: pt, P: p + 1, K: k + 1, Nth: 1})
			}
		}
	}
	return ps
}

// GenRandom produces n scenarios with random configuration, cancellation and perturbation.
func GenRandom(seed int64, n, maxP, maxL int) []*Scenario {
	rng := rand.New(rand.NewSource(seed))
	var out []*Scenario
	for i := 1; i <= n; i++ {
		sc := genConfig(rng, i, maxP, maxL)
		switch x := rng.Intn(10); {
		case x < 4:
			sc.Cancel = CancelAt{Mode: "never"}
		case x == 4:
			sc.Cancel = CancelAt{Mode: "before"}
		default:
			pos := positions(sc)
			sc.Cancel = pos[rng.Intn(len(pos))]
		}
		sc.Hold = sc.Cancel.Mode != "never" && rng.Intn(2) == 0
		sc.Perturb = []int{0, 1, 2, 4}[rng.Intn(4)]
		out = append(out, sc)
	}
	return out
}

// GenPositions produces, for cfgs random configurations, one scenario per cancel
// position (plus "before" and "never"), with every node return held after the cancel.
func GenPositions(seed int64, cfgs, maxP, maxL, reps int) []*Scenario {
	rng := rand.New(rand.NewSource(seed))
	var out []*Scenario
	id := 0
	for c := 0; c < cfgs; c++ {
		base := genConfigP(rng, 0, maxP, maxL, c%5-1)
		for len(base.Pipes) == 0 {
			base = genConfigP(rng, 0, maxP, maxL, c%5-1)
		}
		all := append([]CancelAt{{Mode: "never"}, {Mode: "before"}}, positions(base)...)
		for _, pos := range all {
			for rep := 0; rep < reps; rep++ {
				id++
				sc := *base
				sc.ID = id
				sc.Seed = rng.Int63()
				sc.Cancel = pos
				sc.Hold = pos.Mode != "never"
				sc.Perturb = []int{0, 2, 4}[rep%3]
				out = append(out, &sc)
			}
		}
	}
	return out
}
