// Package locks runs Broker operations whose nodes call back into the same
// Broker (from Process, Close and Reopen; the library's gated filter wired to
// the Broker with pending groups) under a watchdog, with and without writers
// waiting on the Broker's lock, and senses which Broker lock is held while a
// node callback runs.
package locks

import (
	"context"
	"fmt"
	"math"
	"runtime"
	"strings"
	"sync"
	"sync/atomic"
	"time"

	"github.com/hashicorp/eventlogger"
	"github.com/hashicorp/eventlogger/filters/gated"
)

// Scenario names one run.
type Scenario struct {
	Name    string `json:"name"`
	Op      string `json:"op"`                // rpan, removenode, reopen, send, mixed
	Cb      string `json:"cb"`                // which callback re-enters Send: none, process, close, reopen, gated
	Pending int    `json:"pending"`           // groups pending in the gated filter
	Writer  bool   `json:"writer"`            // a writer is parked on the lock while the callback runs
	Compose string `json:"compose,omitempty"` // "gateable": ComposeFrom hands back a payload that is itself a Gateable flush event
	Race    bool   `json:"race"`              // gated filter inside Process (holding its mutex) vs removal
	Fail    string `json:"fail,omitempty"`    // op "failed": which call is made with a failing precondition
}

// Result of a scenario.
type Result struct {
	Scenario Scenario `json:"scenario"`
	Returned bool     `json:"returned"`
	Hung     string   `json:"hung,omitempty"` // goroutine dump excerpt when it did not return
	LockHeld string   `json:"lock_held"`      // broker lock sensed inside the callback: none, R-or-W, W, not-run
	Sent     int      `json:"sent"`           // events that reached the final sink
	Err      string   `json:"err,omitempty"`
}

type sink struct{ n atomic.Int64 }

func (s *sink) Process(ctx context.Context, e *eventlogger.Event) (*eventlogger.Event, error) {
	s.n.Add(1)
	return nil, nil
}
func (s *sink) Reopen() error              { return nil }
func (s *sink) Type() eventlogger.NodeType { return eventlogger.NodeTypeSink }

// emptyWrap is a filter that implements NodeUnwrapper and wraps nothing.
type emptyWrap struct{}

func (w *emptyWrap) Process(ctx context.Context, e *eventlogger.Event) (*eventlogger.Event, error) {
	return e, nil
}
func (w *emptyWrap) Reopen() error              { return nil }
func (w *emptyWrap) Type() eventlogger.NodeType { return eventlogger.NodeTypeFilter }
func (w *emptyWrap) Unwrap() eventlogger.Node   { return nil }

// reent is a filter node that re-enters Broker.Send from the chosen callback.
type reent struct {
	b      *eventlogger.Broker
	cb     string
	writer bool
	held   atomic.Value // string
	depth  atomic.Int64
	wg     *sync.WaitGroup
}

func (r *reent) sense() {
	// which broker lock is held by the caller of this callback?
	mode := "none"
	rd := make(chan struct{})
	go func() { r.b.IsAnyPipelineRegistered("probe-type"); close(rd) }()
	select {
	case <-rd:
	case <-time.After(60 * time.Millisecond):
		mode = "W"
	}
	if mode == "none" {
		wr := make(chan struct{})
		r.wg.Add(1)
		go func() {
			defer r.wg.Done()
			r.b.SetSuccessThreshold("probe-type", 0)
			close(wr)
		}()
		select {
		case <-wr:
		case <-time.After(60 * time.Millisecond):
			mode = "R-or-W"
		}
	}
	r.held.Store(mode)
}

func (r *reent) reenter(kind string) {
	if r.cb != kind || r.depth.Load() > 0 {
		return
	}
	r.depth.Add(1)
	defer r.depth.Add(-1)
	r.sense()
	if r.writer {
		// park a writer on the broker lock, then read-lock through Send
		r.wg.Add(1)
		go func() {
			defer r.wg.Done()
			r.b.RegisterNode("parked-writer", &sink{})
		}()
		time.Sleep(20 * time.Millisecond)
	}
	r.b.Send(context.Background(), "inner", "from-"+kind)
}

func (r *reent) Process(ctx context.Context, e *eventlogger.Event) (*eventlogger.Event, error) {
	if e.Type == "outer" {
		r.reenter("process")
		if r.cb == "process-write" && r.depth.Load() == 0 {
			// a node that registers / reconfigures something on its Broker while it processes an event
			r.depth.Add(1)
			r.sense()
			r.b.RegisterNode("registered-from-process", &sink{})
			r.b.SetSuccessThreshold("inner", 0)
			// ... also pipelines of the very event type that is being processed (a one-shot pipeline that retires itself)
			r.b.RegisterPipeline(eventlogger.Pipeline{PipelineID: "from-process", EventType: "outer", NodeIDs: []eventlogger.NodeID{"fmt", "registered-from-process"}})
			r.b.RemovePipeline("outer", "from-process")
			r.b.RemoveNode(ctx, "registered-from-process")
			r.depth.Add(-1)
		}
	}
	return e, nil
}
func (r *reent) Reopen() error                   { r.reenter("reopen"); return nil }
func (r *reent) Close(ctx context.Context) error { r.reenter("close"); return nil }
func (r *reent) Type() eventlogger.NodeType      { return eventlogger.NodeTypeFilter }

// gpay blocks inside ComposeFrom when asked to, so that the gated filter can be held inside
// Process (its mutex taken, just before it sends through the Broker).
type gate struct {
	hold    atomic.Bool
	entered chan struct{}
	release chan struct{}
}
type gpay struct {
	gated.Payload
	g    *gate
	comp string
}

func (p *gpay) ComposeFrom(events []*eventlogger.Event) (eventlogger.EventType, interface{}, error) {
	if p.g != nil && p.g.hold.Load() {
		select {
		case p.g.entered <- struct{}{}:
		default:
		}
		<-p.g.release
	}
	if p.comp == "gateable" {
		// a composite that would come straight back into the same filter through the Broker: whatever the
		// filter makes of it (today: an error), every call has to return
		return "outer", &gpay{Payload: gated.Payload{ID: "composed", Flush: true}, comp: p.comp}, nil
	}
	return "outer", &struct{ N int }{len(events)}, nil
}

func mustNil(err error) {
	if err != nil {
		panic(err)
	}
}

func dump() string {
	buf := make([]byte, 1<<20)
	n := runtime.Stack(buf, true)
	var out []string
	for _, g := range strings.Split(string(buf[:n]), "\n\n") {
		if strings.Contains(g, "eventlogger.(*Broker)") && (strings.Contains(g, "sync.(*RWMutex)") || strings.Contains(g, "sync.(*Mutex)")) {
			lines := strings.Split(g, "\n")
			if len(lines) > 12 {
				lines = lines[:12]
			}
			out = append(out, strings.Join(lines, "\n"))
		}
	}
	return strings.Join(out, "\n--\n")
}

// Run executes one scenario on a fresh Broker under a watchdog.
func Run(sc Scenario) Result {
	res := Result{Scenario: sc, LockHeld: "not-run"}
	b, _ := eventlogger.NewBroker()
	var wg sync.WaitGroup
	rn := &reent{b: b, cb: sc.Cb, writer: sc.Writer, wg: &wg}
	rn.held.Store("not-run")
	out := &sink{}
	now := time.Date(2022, 1, 1, 0, 0, 0, 0, time.UTC)
	var clk atomic.Int64
	gt := &gate{entered: make(chan struct{}, 4), release: make(chan struct{})}
	gf := &gated.Filter{Broker: b, Expiration: time.Second, NowFunc: func() time.Time { return now.Add(time.Duration(clk.Load()) * time.Second) }}
	mustNil(b.RegisterNode("gf", gf))
	mustNil(b.RegisterNode("rn", rn))
	mustNil(b.RegisterNode("fmt", &eventlogger.JSONFormatter{}))
	mustNil(b.RegisterNode("out", out))
	mustNil(b.RegisterNode("fmt2", &eventlogger.JSONFormatter{}))
	mustNil(b.RegisterNode("out2", &sink{}))
	mustNil(b.RegisterPipeline(eventlogger.Pipeline{PipelineID: "outer", EventType: "outer", NodeIDs: []eventlogger.NodeID{"gf", "rn", "fmt", "out"}}))
	mustNil(b.RegisterPipeline(eventlogger.Pipeline{PipelineID: "inner", EventType: "inner", NodeIDs: []eventlogger.NodeID{"fmt2", "out2"}}))
	if sc.Cb == "process-write" {
		// the re-entering node is also the first node of a pipeline of its own: it runs where Send walks the pipelines
		mustNil(b.RegisterPipeline(eventlogger.Pipeline{PipelineID: "rootp", EventType: "outer", NodeIDs: []eventlogger.NodeID{"rn", "fmt", "out"}}))
	}
	ctx := context.Background()
	done := make(chan error, 1)
	go func() {
		var err error
		defer func() {
			if p := recover(); p != nil {
				err = fmt.Errorf("panic: %v", p)
			}
			done <- err
		}()
		// (the Sends that leave groups pending are Broker calls like any other: under the watchdog)
		for i := 0; i < sc.Pending; i++ {
			b.Send(ctx, "outer", &gpay{Payload: gated.Payload{ID: fmt.Sprintf("g%d", i)}, g: gt, comp: sc.Compose})
		}
		switch sc.Op {
		case "rpan":
			_, err = b.RemovePipelineAndNodes(ctx, "outer", "outer")
		case "removenode":
			mustNil(b.RemovePipeline("outer", "outer"))
			if sc.Cb == "gated" {
				err = b.RemoveNode(ctx, "gf")
			} else {
				err = b.RemoveNode(ctx, "rn")
			}
		case "emptywrap":
			// a decorator that currently wraps nothing (NodeUnwrapper whose Unwrap returns nil, no Close of its own): closing it
			// is closing nothing, and the removing calls return
			b.RegisterNode("ew", &emptyWrap{})
			b.RegisterNode("ew2", &emptyWrap{})
			mustNil(b.RegisterPipeline(eventlogger.Pipeline{PipelineID: "ewp", EventType: "ew", NodeIDs: []eventlogger.NodeID{"ew2", "fmt2", "out2"}}))
			err = b.RemoveNode(ctx, "ew")
			if _, e2 := b.RemovePipelineAndNodes(ctx, "ew", "ewp"); e2 != nil && err == nil {
				err = e2
			}
			b.RegisterNode("fmt2", &eventlogger.JSONFormatter{})
			b.RegisterNode("out2", &sink{})
		case "renode":
			// a node that still holds pending work and calls back into the Broker when closed is replaced under its id
			// once no pipeline lists it: whatever RegisterNode does with the old one, it returns, and so do later calls
			mustNil(b.RemovePipeline("outer", "outer"))
			err = b.RegisterNode("gf", &gated.Filter{Broker: b, Expiration: time.Second})
			if err == nil {
				err = b.RegisterNode("rn", &reent{b: b, cb: "none", wg: &wg})
			}
			b.Send(ctx, "inner", "after the nodes were replaced")
			b.RegisterPipeline(eventlogger.Pipeline{PipelineID: "outer", EventType: "outer", NodeIDs: []eventlogger.NodeID{"gf", "rn", "fmt", "out"}})
			b.Send(ctx, "outer", &gpay{Payload: gated.Payload{ID: "again"}, g: gt})
		case "reopen":
			err = b.Reopen(ctx)
		case "failed":
			err = failingCall(b, sc.Fail)
			if err == nil && !strings.HasSuffix(sc.Fail, "-precancelled") { // a call may well succeed although its context is done (a Send whose pipelines all complete, a removal)
				err = fmt.Errorf("harness: the call %s was expected to fail", sc.Fail)
			} else {
				err = nil
			}
			// the Broker must be as usable as before
			b.Send(ctx, "outer", "after a failed call")
			b.IsAnyPipelineRegistered("outer")
			b.RegisterNode("after-failed-call", &sink{})
			b.Reopen(ctx)
			b.SetSuccessThreshold("outer", 0)
			b.SetSuccessThresholdSinks("inner", 0)
			b.Send(ctx, "inner", "after the thresholds were set again")
			if _, e2 := b.RemovePipelineAndNodes(ctx, "inner", "inner"); e2 != nil {
				err = fmt.Errorf("RemovePipelineAndNodes after the failed call: %v", e2)
			}
		case "send":
			clk.Add(5) // pending groups are expired: the gated filter flushes them through the Broker from Process
			if sc.Cb == "process" || sc.Cb == "process-write" {
				_, err = b.Send(ctx, "outer", "plain payload: passes the gate and reaches the re-entering node")
			}
			_, err = b.Send(ctx, "outer", &gpay{Payload: gated.Payload{ID: "new"}, g: gt, comp: sc.Compose})
			if sc.Compose != "" {
				// whatever became of the flush, later calls through the same filter return as well
				b.Send(ctx, "outer", &gpay{Payload: gated.Payload{ID: "later"}, g: gt, comp: sc.Compose})
				b.Send(ctx, "outer", &gpay{Payload: gated.Payload{ID: "later", Flush: true}, g: gt, comp: sc.Compose})
				_, err = b.RemovePipelineAndNodes(ctx, "outer", "outer")
			}
		case "race":
			// the gated filter is inside Process holding its mutex (blocked in ComposeFrom), a removal closes it meanwhile
			gt.hold.Store(true)
			clk.Add(5)
			sendDone := make(chan struct{})
			go func() {
				b.Send(ctx, "outer", &gpay{Payload: gated.Payload{ID: "new"}, g: gt})
				close(sendDone)
			}()
			select {
			case <-gt.entered:
			case <-time.After(time.Second):
			}
			rmDone := make(chan struct{})
			go func() {
				b.RemovePipelineAndNodes(ctx, "outer", "outer")
				close(rmDone)
			}()
			time.Sleep(40 * time.Millisecond)
			gt.hold.Store(false)
			close(gt.release)
			<-sendDone
			<-rmDone
		case "getters":
			// read-only calls (getters, IsAnyPipelineRegistered) from several goroutines while others register and set thresholds
			var w3 sync.WaitGroup
			stop := make(chan struct{})
			for i := 0; i < 4; i++ {
				w3.Add(1)
				go func(i int) {
					defer w3.Done()
					for {
						select {
						case <-stop:
							return
						default:
						}
						b.SuccessThreshold("outer")
						b.SuccessThresholdSinks("inner")
						b.IsAnyPipelineRegistered("outer")
					}
				}(i)
			}
			for i := 0; i < 2; i++ {
				w3.Add(1)
				go func(i int) {
					defer w3.Done()
					for j := 0; j < 30000; j++ {
						b.RegisterNode(eventlogger.NodeID(fmt.Sprintf("spare%d", i)), &sink{})
						if j%64 == 0 {
							b.SetSuccessThreshold("outer", 0)
							b.Send(ctx, "inner", "x")
						}
					}
				}(i)
			}
			time.Sleep(300 * time.Millisecond)
			close(stop)
			w3.Wait()
		case "mixed":
			var w2 sync.WaitGroup
			for i := 0; i < 4; i++ {
				w2.Add(1)
				go func(i int) {
					defer w2.Done()
					for j := 0; j < 20; j++ {
						switch (i + j) % 4 {
						case 0:
							clk.Add(2)
							b.Send(ctx, "outer", &gpay{Payload: gated.Payload{ID: fmt.Sprintf("m%d", j%3), Flush: j%5 == 0}})
						case 1:
							b.Reopen(ctx)
						case 2:
							b.RegisterNode(eventlogger.NodeID(fmt.Sprintf("n%d_%d", i, j)), &sink{})
							b.SetSuccessThreshold("outer", 0)
						case 3:
							b.IsAnyPipelineRegistered("outer")
							b.Send(ctx, "inner", "x")
						}
					}
				}(i)
			}
			w2.Wait()
			_, err = b.RemovePipelineAndNodes(ctx, "outer", "outer")
		}
	}()
	select {
	case err := <-done:
		res.Returned = true
		if err != nil {
			res.Err = err.Error()
		}
	case <-time.After(10 * time.Second):
		res.Hung = dump()
		if res.Hung == "" {
			res.Hung = "(no goroutine parked on a Broker lock found in the dump)"
		}
	}
	if res.Returned {
		w := make(chan struct{})
		go func() { wg.Wait(); close(w) }()
		select {
		case <-w:
		case <-time.After(10 * time.Second):
			res.Returned = false
			res.Hung = "helper calls (parked writer / probes) never returned: " + dump()
		}
	}
	res.LockHeld = rn.held.Load().(string)
	res.Sent = int(out.n.Load())
	return res
}

// failingCall makes one public call whose precondition fails (type "outer" has a graph, pipeline "outer" is registered).
func failingCall(b *eventlogger.Broker, which string) error {
	ctx := context.Background()
	var err error
	switch which {
	case "rpan-unknown-pipeline":
		_, err = b.RemovePipelineAndNodes(ctx, "outer", "no-such-pipeline")
	case "rpan-unknown-type":
		_, err = b.RemovePipelineAndNodes(ctx, "no-such-type", "outer")
	case "rpan-empty":
		_, err = b.RemovePipelineAndNodes(ctx, "", "")
	case "rpan-twice":
		b.RemovePipelineAndNodes(ctx, "inner", "inner")
		_, err = b.RemovePipelineAndNodes(ctx, "inner", "inner")
		b.RegisterNode("fmt2", &eventlogger.JSONFormatter{})
		b.RegisterNode("out2", &sink{})
		b.RegisterPipeline(eventlogger.Pipeline{PipelineID: "inner", EventType: "inner", NodeIDs: []eventlogger.NodeID{"fmt2", "out2"}})
	case "removepipeline-unknown-type":
		err = b.RemovePipeline("no-such-type", "outer")
	case "removepipeline-empty":
		err = b.RemovePipeline("", "")
	case "removenode-unknown":
		err = b.RemoveNode(ctx, "no-such-node")
	case "removenode-inuse":
		err = b.RemoveNode(ctx, "out")
	case "removenode-empty":
		err = b.RemoveNode(ctx, "")
	case "registernode-empty":
		err = b.RegisterNode("", &sink{})
	case "registernode-deny":
		b.RegisterNode("denied", &sink{}, eventlogger.WithNodeRegistrationPolicy(eventlogger.DenyOverwrite))
		err = b.RegisterNode("denied", &sink{})
	case "registernode-badpolicy":
		err = b.RegisterNode("badpol", &sink{}, eventlogger.WithNodeRegistrationPolicy("bogus"))
	case "registerpipeline-unknown-node":
		err = b.RegisterPipeline(eventlogger.Pipeline{PipelineID: "bad", EventType: "outer", NodeIDs: []eventlogger.NodeID{"fmt", "no-such-node"}})
	case "registerpipeline-malformed":
		err = b.RegisterPipeline(eventlogger.Pipeline{PipelineID: "bad", EventType: "outer", NodeIDs: []eventlogger.NodeID{"out", "fmt"}})
	case "registerpipeline-empty":
		err = b.RegisterPipeline(eventlogger.Pipeline{})
	case "registerpipeline-deny":
		b.RegisterPipeline(eventlogger.Pipeline{PipelineID: "den", EventType: "outer", NodeIDs: []eventlogger.NodeID{"fmt", "out"}}, eventlogger.WithPipelineRegistrationPolicy(eventlogger.DenyOverwrite))
		err = b.RegisterPipeline(eventlogger.Pipeline{PipelineID: "den", EventType: "outer", NodeIDs: []eventlogger.NodeID{"fmt", "out"}})
	case "registerpipeline-badpolicy":
		err = b.RegisterPipeline(eventlogger.Pipeline{PipelineID: "bp", EventType: "outer", NodeIDs: []eventlogger.NodeID{"fmt", "out"}}, eventlogger.WithPipelineRegistrationPolicy("bogus"))
	case "threshold-negative":
		err = b.SetSuccessThreshold("outer", -1)
	case "threshold-empty":
		err = b.SetSuccessThreshold("", 1)
	case "thresholdsinks-negative":
		err = b.SetSuccessThresholdSinks("outer", -1)
	case "thresholdsinks-empty":
		err = b.SetSuccessThresholdSinks("", 1)
	case "send-unknown-type":
		_, err = b.Send(ctx, "no-such-type", "x")
	case "send-precancelled":
		cctx, cancel := context.WithCancel(ctx)
		cancel()
		_, err = b.Send(cctx, "inner", "x")
	case "rpan-precancelled", "removenode-precancelled", "reopen-precancelled":
		// a caller that has given up already: whatever the call does with that, it returns and leaves the Broker usable
		cctx, cancel := context.WithCancel(ctx)
		cancel()
		b.RegisterNode("fmt3", &eventlogger.JSONFormatter{})
		b.RegisterNode("out3", &sink{})
		b.RegisterPipeline(eventlogger.Pipeline{PipelineID: "spare", EventType: "spare", NodeIDs: []eventlogger.NodeID{"fmt3", "out3"}})
		b.RegisterNode("spare-node", &sink{})
		switch which {
		case "rpan-precancelled":
			_, err = b.RemovePipelineAndNodes(cctx, "spare", "spare")
		case "removenode-precancelled":
			err = b.RemoveNode(cctx, "spare-node")
		default:
			err = b.Reopen(cctx)
		}
	case "send-threshold-huge":
		// thresholds are only required to be non-negative: a Send under a threshold nobody can meet reports the shortfall
		b.SetSuccessThreshold("inner", math.MaxInt)
		b.SetSuccessThresholdSinks("inner", math.MaxInt)
		_, err = b.Send(ctx, "inner", "x")
		b.SetSuccessThreshold("inner", 0)
		b.SetSuccessThresholdSinks("inner", 0)
	case "send-threshold-unmet":
		b.SetSuccessThreshold("inner", 5)
		_, err = b.Send(ctx, "inner", "x")
		b.SetSuccessThreshold("inner", 0)
	}
	return err
}

// FailingCalls lists the failing-precondition calls of the "failed" scenarios.
var FailingCalls = []string{"rpan-unknown-pipeline", "rpan-unknown-type", "rpan-empty", "rpan-twice", "removepipeline-unknown-type", "removepipeline-empty",
	"removenode-unknown", "removenode-inuse", "removenode-empty", "registernode-empty", "registernode-deny", "registernode-badpolicy",
	"registerpipeline-unknown-node", "registerpipeline-malformed", "registerpipeline-empty", "registerpipeline-deny", "registerpipeline-badpolicy",
	"threshold-negative", "threshold-empty", "thresholdsinks-negative", "thresholdsinks-empty", "send-unknown-type", "send-precancelled", "send-threshold-unmet", "send-threshold-huge",
	"rpan-precancelled", "removenode-precancelled", "reopen-precancelled"}

// Scenarios enumerates operation x re-entering callback x pending groups x parked writer.
func Scenarios() []Scenario {
	var out []Scenario
	add := func(s Scenario) {
		s.Name = fmt.Sprintf("%s/cb=%s/pending=%d/writer=%v", s.Op, s.Cb, s.Pending, s.Writer)
		out = append(out, s)
	}
	for k := 0; k <= 3; k++ {
		add(Scenario{Op: "rpan", Cb: "gated", Pending: k})
		add(Scenario{Op: "removenode", Cb: "gated", Pending: k})
		add(Scenario{Op: "send", Cb: "gated", Pending: k})
		add(Scenario{Op: "race", Cb: "gated", Pending: k})
	}
	add(Scenario{Op: "emptywrap", Cb: "none"})
	for k := 0; k <= 2; k++ {
		add(Scenario{Op: "renode", Cb: "gated", Pending: k})
		add(Scenario{Op: "renode", Cb: "close", Pending: k})
	}
	for _, w := range []bool{false, true} {
		add(Scenario{Op: "rpan", Cb: "close", Writer: w})
		add(Scenario{Op: "removenode", Cb: "close", Writer: w})
		add(Scenario{Op: "reopen", Cb: "reopen", Writer: w})
		add(Scenario{Op: "send", Cb: "process", Writer: w, Pending: 1})
		add(Scenario{Op: "rpan", Cb: "close", Writer: w, Pending: 2})
	}
	for _, w := range []bool{false, true} {
		add(Scenario{Op: "send", Cb: "process-write", Writer: w, Pending: 1})
	}
	for k := 1; k <= 2; k++ {
		for _, op := range []string{"send", "rpan", "removenode"} {
			sc := Scenario{Op: op, Cb: "gated", Pending: k, Compose: "gateable"}
			sc.Name = fmt.Sprintf("%s/cb=gated/pending=%d/compose=gateable", op, k)
			out = append(out, sc)
		}
	}
	for _, f := range FailingCalls {
		sc := Scenario{Op: "failed", Cb: "none", Fail: f}
		sc.Name = "failed/" + f
		out = append(out, sc)
	}
	add(Scenario{Op: "getters", Cb: "none"})
	add(Scenario{Op: "mixed", Cb: "process", Pending: 2})
	add(Scenario{Op: "mixed", Cb: "reopen", Pending: 1})
	add(Scenario{Op: "mixed", Cb: "close", Pending: 3})
	return out
}
