package sinksrep

import (
	"context"
	"fmt"
	"sync"
	"sync/atomic"
	"time"

	"github.com/hashicorp/eventlogger"
	"github.com/hashicorp/eventlogger/sinks/channel"
)

// RunChannelConc: several Process calls in flight on one ChannelSink whose consumer takes only some of the events
// (spec/sinks/ChannelConc.tla). Every call ends in exactly one outcome; the delivered events are exactly those of
// the calls that reported success; no call stays blocked once its own timeout (or its context) has passed.
func RunChannelConc(rep *Report) {
	const timeout = 150 * time.Millisecond
	const grace = 20 * time.Second // a call still blocked this long after its bound has lost its wake-up (never a matter of machine load)
	for _, sc := range []struct {
		callers, consumes int
		stagger           time.Duration
		ctxFor            int // caller index with a 60 ms deadline (-1 none)
	}{{2, 0, 0, -1}, {2, 1, 0, -1}, {4, 1, 0, -1}, {4, 0, 30 * time.Millisecond, -1}, {8, 3, 10 * time.Millisecond, 2}, {3, 1, 60 * time.Millisecond, 0}} {
		rep.Runs++
		vec := map[string]interface{}{"callers": sc.callers, "consumer_takes": sc.consumes, "stagger_ms": sc.stagger.Milliseconds(), "timeout_ms": timeout.Milliseconds()}
		ch := make(chan *eventlogger.Event)
		cs, err := channel.NewChannelSink(ch, timeout)
		if err != nil {
			rep.mm(Mismatch{What: "NewChannelSink", Vector: vec, Expected: "ok", Observed: err.Error()})
			continue
		}
		type res struct {
			err      error
			el       time.Duration
			bound    time.Duration
			returned atomic.Bool
		}
		results := make([]*res, sc.callers)
		events := make([]*eventlogger.Event, sc.callers)
		var wg sync.WaitGroup
		for i := 0; i < sc.callers; i++ {
			results[i] = &res{bound: timeout}
			events[i] = &eventlogger.Event{Type: "t", Payload: i, Formatted: map[string][]byte{}}
			wg.Add(1)
			go func(i int) {
				defer wg.Done()
				time.Sleep(time.Duration(i) * sc.stagger)
				ctx := context.Background()
				if i == sc.ctxFor {
					var cancel context.CancelFunc
					ctx, cancel = context.WithTimeout(ctx, 60*time.Millisecond)
					defer cancel()
					results[i].bound = 60 * time.Millisecond
				}
				t0 := time.Now()
				_, results[i].err = cs.Process(ctx, events[i])
				results[i].el = time.Since(t0)
				results[i].returned.Store(true)
			}(i)
		}
		// the consumer takes its events a little after the first calls started, then goes away
		var got []*eventlogger.Event
		recvDone := make(chan struct{})
		go func() {
			defer close(recvDone)
			time.Sleep(40 * time.Millisecond)
			for k := 0; k < sc.consumes; k++ {
				select {
				case e := <-ch:
					got = append(got, e)
				case <-time.After(timeout + 2*time.Second):
					return
				}
			}
		}()
		fin := make(chan struct{})
		go func() { wg.Wait(); close(fin) }()
		select {
		case <-fin:
		case <-time.After(time.Duration(sc.callers)*sc.stagger + timeout + grace):
		}
		<-recvDone
		blocked := 0
		for i, r := range results {
			if !r.returned.Load() {
				blocked++
				rep.mm(Mismatch{What: "a Process call on a ChannelSink shared by concurrent callers is still blocked long after its own timeout", Vector: vec,
					Expected: fmt.Sprintf("caller %d returns within %v", i, r.bound), Observed: fmt.Sprintf("still blocked after %v", r.bound+grace)})
			}
		}
		if blocked > 0 {
			// drain so that the goroutines end
			go func() {
				for range ch {
				}
			}()
			continue
		}
		okN := 0
		for i, r := range results {
			delivered := false
			for _, e := range got {
				if e == events[i] {
					delivered = true
				}
			}
			if r.err == nil {
				okN++
			}
			if (r.err == nil) != delivered {
				rep.mm(Mismatch{What: "ChannelSink outcome under concurrent callers: success iff the event was handed to the channel", Vector: vec,
					Expected: fmt.Sprintf("caller %d delivered=%v", i, delivered), Observed: fmt.Sprintf("err=%v", r.err)})
			}
		}
		if okN != len(got) {
			rep.mm(Mismatch{What: "number of successful ChannelSink calls vs events received", Vector: vec, Expected: len(got), Observed: okN})
		}
		rep.Nontrivial++
	}
}
