// Package sinksrep replays the vectors of the TLA+ module Sinks on the real
// writer.Sink, FileSink (format handling and special paths) and ChannelSink.
package sinksrep

import (
	"bufio"
	"bytes"
	"context"
	"encoding/json"
	"errors"
	"fmt"
	"io"
	"math/rand"
	"os"
	"os/signal"
	"path/filepath"
	"runtime"
	"strings"
	"sync"
	"sync/atomic"
	"syscall"
	"time"

	"github.com/hashicorp/eventlogger"
	"github.com/hashicorp/eventlogger/sinks/channel"
	"github.com/hashicorp/eventlogger/sinks/writer"
)

type Vec struct {
	T string `json:"t"`
	V struct {
		Kind    string   `json:"kind"`
		Table   []string `json:"table"`
		Conf    string   `json:"conf"`
		Wb      string   `json:"wb"`
		Ready   int      `json:"ready"`
		Timeout int      `json:"timeout"`
		Cancel  int      `json:"cancel"`
	} `json:"v"`
	Exp struct {
		OK      bool     `json:"ok"`
		Written bool     `json:"written"`
		Retried bool     `json:"retried"`
		Allowed []string `json:"allowed"`
		By      int      `json:"by"`
	} `json:"exp"`
}

type Mismatch struct {
	What     string      `json:"what"`
	Vector   interface{} `json:"vector"`
	Expected interface{} `json:"expected"`
	Observed interface{} `json:"observed"`
}

type Report struct {
	Vectors    int           `json:"vectors"`
	Runs       int           `json:"runs"`
	Nontrivial int           `json:"distinct_nontrivial"`
	MismatchN  int           `json:"mismatch_count"`
	Stuck      int           `json:"stuck"`
	Mismatches []Mismatch    `json:"mismatches"`
	Samples    []interface{} `json:"samples"`
}

// recWriter records every Write call; it is deliberately slow and flags overlapping entry.
type recWriter struct {
	mu       sync.Mutex
	chunks   [][]byte
	inflight atomic.Int32
	overlap  atomic.Bool
	beh      string
	slow     bool
}

var errWrite = errors.New("harness: injected write failure")

func (w *recWriter) Write(p []byte) (int, error) {
	if w.inflight.Add(1) > 1 {
		w.overlap.Store(true)
	}
	defer w.inflight.Add(-1)
	if w.slow {
		time.Sleep(300 * time.Microsecond)
	}
	switch w.beh {
	case "err":
		return 0, errWrite
	case "short":
		n := len(p) / 2
		w.mu.Lock()
		w.chunks = append(w.chunks, append([]byte{}, p[:n]...))
		w.mu.Unlock()
		return n, nil
	}
	w.mu.Lock()
	w.chunks = append(w.chunks, append([]byte{}, p...))
	w.mu.Unlock()
	return len(p), nil
}

func fmtBytes(rng *rand.Rand, format string, call int) []byte {
	n := 1 + rng.Intn(120)
	b := make([]byte, n)
	for i := range b {
		b[i] = byte(rng.Intn(256))
	}
	return append([]byte(fmt.Sprintf("<%s:%d:", format, call)), append(b, '>', '\n')...)
}

func (r *Report) mm(m Mismatch) {
	r.MismatchN++
	if len(r.Mismatches) < 40 {
		r.Mismatches = append(r.Mismatches, m)
	}
}

// runWriterVec runs a writer/file vector with the given number of concurrent callers.
func runWriterVec(rep *Report, v *Vec, callers int, rng *rand.Rand) {
	rep.Runs++
	events := make([]*eventlogger.Event, callers)
	want := make([][]byte, callers)
	eff := v.V.Conf
	if eff == "" {
		eff = "json"
	}
	for i := range events {
		e := &eventlogger.Event{Type: "t", CreatedAt: time.Now(), Formatted: map[string][]byte{}}
		for _, f := range v.V.Table {
			b := fmtBytes(rng, f, i)
			e.FormattedAs(f, b)
			if f == eff {
				want[i] = b
			}
		}
		events[i] = e
	}
	var node eventlogger.Node
	rw := &recWriter{beh: v.V.Wb, slow: callers > 1}
	var dir string
	var restore func()
	var pipeOut *bytes.Buffer
	switch v.V.Kind {
	case "writer":
		node = &writer.Sink{Format: v.V.Conf, Writer: rw}
	case "file":
		dir, _ = os.MkdirTemp("", "verif-sk-")
		defer os.RemoveAll(dir)
		node = &eventlogger.FileSink{Path: filepath.Join(dir, "x"), FileName: "out.log", Format: v.V.Conf}
	case "devnull":
		node = &eventlogger.FileSink{Path: "/dev/null", FileName: "ignored", Format: v.V.Conf}
	case "devfull":
		node = &eventlogger.FileSink{Path: "/dev", FileName: "full", Format: v.V.Conf}
	case "stdout", "stderr":
		pr, pw, err := os.Pipe()
		if err != nil {
			return
		}
		pipeOut = &bytes.Buffer{}
		done := make(chan struct{})
		go func() { io.Copy(pipeOut, pr); close(done) }()
		if v.V.Kind == "stdout" {
			old := os.Stdout
			os.Stdout = pw
			restore = func() { os.Stdout = old; pw.Close(); <-done }
			node = &eventlogger.FileSink{Path: "/dev/stdout", FileName: "ignored", Format: v.V.Conf}
		} else {
			old := os.Stderr
			os.Stderr = pw
			restore = func() { os.Stderr = old; pw.Close(); <-done }
			node = &eventlogger.FileSink{Path: "/dev/stderr", FileName: "ignored", Format: v.V.Conf}
		}
	}
	if fsk, ok := node.(*eventlogger.FileSink); ok && (v.V.Kind == "devnull" || v.V.Kind == "stdout" || v.V.Kind == "stderr") && len(want[0])%2 == 0 {
		// the special paths are pass-through: rotation options (a configuration shared with a real file sink) mean nothing there
		fsk.MaxBytes, fsk.MaxDuration, fsk.MaxFiles, fsk.TimestampOnlyOnRotate = 1, time.Nanosecond, 1, len(want[0])%4 == 0
	}
	oks := make([]bool, callers)
	var wg sync.WaitGroup
	for i := 0; i < callers; i++ {
		wg.Add(1)
		go func(i int) {
			defer wg.Done()
			out, err := node.Process(context.Background(), events[i])
			oks[i] = err == nil
			if out != nil {
				oks[i] = false
			}
		}(i)
	}
	// every Process call returns (with a result or an error): a call still out after 20 s is a verdict, not a hang of the harness
	allBack := make(chan struct{})
	go func() { wg.Wait(); close(allBack) }()
	select {
	case <-allBack:
	case <-time.After(20 * time.Second):
		if restore != nil {
			restore()
		}
		rep.mm(Mismatch{What: fmt.Sprintf("%d concurrent Process calls on one sink: every call returns", callers), Vector: v.V, Expected: "all calls back", Observed: "some call still blocked after 20 s"})
		rep.Stuck++
		return
	}
	if restore != nil {
		restore()
	}
	// what reached the underlying writer
	var got []byte
	var chunks [][]byte
	switch v.V.Kind {
	case "writer":
		chunks = rw.chunks
		for _, c := range chunks {
			got = append(got, c...)
		}
	case "file":
		got, _ = os.ReadFile(filepath.Join(dir, "x", "out.log"))
	case "stdout", "stderr":
		got = pipeOut.Bytes()
	}
	for i := 0; i < callers; i++ {
		if oks[i] != v.Exp.OK {
			rep.mm(Mismatch{What: "success of Process", Vector: v.V, Expected: v.Exp.OK, Observed: oks[i]})
			return
		}
	}
	if v.V.Kind == "devnull" || v.V.Kind == "devfull" {
		return
	}
	if v.Exp.Written {
		// every acknowledged event's bytes are present exactly once and contiguous
		for i := 0; i < callers; i++ {
			if n := bytes.Count(got, want[i]); n != 1 {
				rep.mm(Mismatch{What: "bytes of the configured format delivered exactly once and contiguously", Vector: v.V, Expected: 1, Observed: fmt.Sprintf("caller %d: %d occurrences in %d bytes", i, n, len(got))})
				return
			}
		}
		total := 0
		for i := range want {
			total += len(want[i])
		}
		if len(got) != total {
			rep.mm(Mismatch{What: "nothing but the configured format's bytes is written", Vector: v.V, Expected: total, Observed: len(got)})
		}
		if v.V.Kind == "writer" && rw.overlap.Load() {
			rep.mm(Mismatch{What: "concurrent Process calls entered the writer at the same time (not contiguous for an arbitrary io.Writer)", Vector: v.V, Expected: "serialised writes", Observed: "overlapping Write calls"})
		}
	} else if v.V.Wb == "ok" && len(got) != 0 && !v.Exp.OK {
		rep.mm(Mismatch{What: "bytes written although the event carries none for the configured format", Vector: v.V, Expected: 0, Observed: len(got)})
	}
}

// runFileShort: the file takes only the first half of a record (RLIMIT_FSIZE), so the first write is partial and fails;
// FileSink reopens its file and writes the record once more. Process may report the error, or - when the second attempt
// succeeds - success; in that case some file holds the record whole, once. Records acknowledged before and after are
// in the files exactly once.
func runFileShort(rep *Report, v *Vec, variant string, rng *rand.Rand) {
	var old syscall.Rlimit
	if err := syscall.Getrlimit(syscall.RLIMIT_FSIZE, &old); err != nil {
		return
	}
	signal.Ignore(syscall.SIGXFSZ)
	rep.Runs++
	eff := v.V.Conf
	if eff == "" {
		eff = "json"
	}
	dir, _ := os.MkdirTemp("", "verif-skshort-")
	defer os.RemoveAll(dir)
	fsk := &eventlogger.FileSink{Path: dir, FileName: "out.log", Format: v.V.Conf}
	switch variant {
	case "rotating":
		fsk.MaxBytes = 1 << 20
	case "toor":
		fsk.MaxBytes, fsk.TimestampOnlyOnRotate = 1<<20, true
	}
	var recs [][]byte
	var acked []bool
	build := func(i int) (*eventlogger.Event, []byte) {
		e := &eventlogger.Event{Type: "t", CreatedAt: time.Now(), Formatted: map[string][]byte{}}
		var mine []byte
		for _, f := range v.V.Table {
			b := fmtBytes(rng, f, i)
			e.FormattedAs(f, b)
			if f == eff {
				mine = b
			}
		}
		return e, mine
	}
	process := func(e *eventlogger.Event, mine []byte) bool {
		out, err := fsk.Process(context.Background(), e)
		recs = append(recs, mine)
		acked = append(acked, err == nil && out == nil)
		return err == nil
	}
	send := func(i int) bool { return process(build(i)) }
	if !send(0) {
		rep.mm(Mismatch{What: "file sink (" + variant + "): first write", Vector: v.V, Expected: "ok", Observed: "error"})
		return
	}
	ents, _ := os.ReadDir(dir)
	if len(ents) != 1 {
		return
	}
	st, err := os.Stat(filepath.Join(dir, ents[0].Name()))
	if err != nil {
		return
	}
	// the limit lets the first half of the next record in
	e1, r1 := build(1)
	limit := uint64(st.Size()) + uint64(len(r1))/2
	if err := syscall.Setrlimit(syscall.RLIMIT_FSIZE, &syscall.Rlimit{Cur: limit, Max: old.Max}); err != nil {
		return
	}
	process(e1, r1)
	syscall.Setrlimit(syscall.RLIMIT_FSIZE, &old)
	if !send(2) {
		rep.mm(Mismatch{What: "file sink (" + variant + "): a write after the failed one, with room again", Vector: v.V, Expected: "ok", Observed: "error"})
		return
	}
	var files [][]byte
	ents, _ = os.ReadDir(dir)
	for _, en := range ents {
		b, _ := os.ReadFile(filepath.Join(dir, en.Name()))
		files = append(files, b)
	}
	for i, r := range recs {
		if !acked[i] {
			continue
		}
		n := 0
		for _, b := range files {
			n += bytes.Count(b, r)
		}
		if n != 1 {
			rep.mm(Mismatch{What: "file sink (" + variant + "), a write that the file took only in part, then a retry: acknowledged record present whole, once, in one file",
				Vector: v.V, Expected: 1, Observed: fmt.Sprintf("record %d (%d bytes): %d whole occurrences in %d files; acknowledged: %v", i, len(r), n, len(files), acked)})
			return
		}
	}
}

// runCrossSink: sink A is held inside the reopen that follows a failed write (its log name is a symbolic link, first to
// /dev/full, then to a FIFO nobody reads yet, so open(2) blocks) while sink B, an ordinary file sink, processes an event
// of its own. Sinks share nothing: when A reports success, what it wrote is its own event's bytes, and B's file holds B's.
// The scenario runs on a single P, the schedule on which goroutines hand per-P caches to each other.
func runCrossSink(rep *Report, rng *rand.Rand) {
	if _, err := os.Stat("/dev/full"); err != nil {
		return
	}
	dir, err := os.MkdirTemp("", "verif-skx-")
	if err != nil {
		return
	}
	defer os.RemoveAll(dir)
	link, fifo := filepath.Join(dir, "a", "a.log"), filepath.Join(dir, "fifo")
	os.MkdirAll(filepath.Join(dir, "a"), 0o700)
	if os.Symlink("/dev/full", link) != nil || syscall.Mkfifo(fifo, 0o600) != nil {
		return
	}
	rep.Runs++
	defer runtime.GOMAXPROCS(runtime.GOMAXPROCS(1))
	mk := func(b []byte) *eventlogger.Event {
		e := &eventlogger.Event{Type: "t", CreatedAt: time.Now(), Formatted: map[string][]byte{}}
		e.FormattedAs(eventlogger.JSONFormat, b)
		return e
	}
	a := &eventlogger.FileSink{Path: filepath.Join(dir, "a"), FileName: "a.log"}
	b := &eventlogger.FileSink{Path: filepath.Join(dir, "b"), FileName: "b.log"}
	if _, err := a.Process(context.Background(), mk(fmtBytes(rng, "json", 0))); err == nil {
		rep.mm(Mismatch{What: "file sink whose file is /dev/full", Vector: "cross-sink", Expected: "error", Observed: "success"})
		return
	}
	os.Remove(link)
	if os.Symlink(fifo, link) != nil {
		return
	}
	wantA, wantB := fmtBytes(rng, "json", 1), fmtBytes(rng, "json", 2)
	aDone := make(chan error, 1)
	go func() { _, err := a.Process(context.Background(), mk(wantA)); aDone <- err }()
	select {
	case err := <-aDone:
		// the sink did not get as far as the FIFO (it gave up after the first failure): nothing to judge
		_ = err
		return
	case <-time.After(150 * time.Millisecond):
	}
	if _, err := b.Process(context.Background(), mk(wantB)); err != nil {
		rep.mm(Mismatch{What: "an ordinary file sink while another sink is inside its reopen", Vector: "cross-sink", Expected: "ok", Observed: err.Error()})
	}
	rd, err := os.OpenFile(fifo, os.O_RDONLY, 0)
	if err != nil {
		return
	}
	got := make(chan []byte, 1)
	go func() { bs, _ := io.ReadAll(rd); got <- bs }()
	var aErr error
	select {
	case aErr = <-aDone:
	case <-time.After(10 * time.Second):
		rep.mm(Mismatch{What: "file sink whose reopened file became writable", Vector: "cross-sink", Expected: "Process returns", Observed: "still blocked after 10 s"})
		rd.Close()
		return
	}
	// the sink keeps its file open: point its name somewhere else and let it reopen, so that the FIFO sees end of file
	os.Remove(link)
	os.Symlink("/dev/null", link)
	a.Reopen()
	var fromA []byte
	select {
	case fromA = <-got:
	case <-time.After(5 * time.Second):
		rd.Close()
		fromA = <-got
	}
	rd.Close()
	if aErr == nil && !bytes.Equal(fromA, wantA) {
		rep.mm(Mismatch{What: "sink A reported success after reopening its file: what it wrote is its own event's bytes (another sink processed an event meanwhile)",
			Vector: "cross-sink", Expected: fmt.Sprintf("%q", wantA), Observed: fmt.Sprintf("%q", fromA)})
	}
	if fb, _ := os.ReadFile(filepath.Join(dir, "b", "b.log")); !bytes.Equal(fb, wantB) {
		rep.mm(Mismatch{What: "sink B's file holds exactly B's event", Vector: "cross-sink", Expected: fmt.Sprintf("%q", wantB), Observed: fmt.Sprintf("%q", fb)})
	}
}

const unit = 70 * time.Millisecond

func runChannelVec(rep *Report, v *Vec) {
	rep.Runs++
	ch := make(chan *eventlogger.Event)
	timeout := time.Duration(v.V.Timeout) * unit
	cs, err := channel.NewChannelSink(ch, timeout)
	if err != nil {
		rep.mm(Mismatch{What: "NewChannelSink", Vector: v.V, Expected: "ok", Observed: err.Error()})
		return
	}
	ctx, cancel := context.WithCancel(context.Background())
	defer cancel()
	if (v.V.Ready+v.V.Timeout+v.V.Cancel)%2 == 0 {
		// the caller's context also has a deadline of its own, far beyond anything that happens here: it changes nothing
		c2, cancel2 := context.WithDeadline(ctx, time.Now().Add(time.Hour))
		defer cancel2()
		ctx = c2
	}
	// the instants at which things really happened are measured, so that scheduling delays of the
	// harness itself never turn into a verdict: the admissible outcomes are derived from the measured instants
	var tReady, tCancel atomic.Int64 // unix nanos, 0 = never
	if v.V.Cancel == 0 {
		cancel()
		tCancel.Store(1)
	} else if v.V.Cancel < 9 {
		time.AfterFunc(time.Duration(v.V.Cancel)*unit, func() { tCancel.Store(time.Now().UnixNano()); cancel() })
	}
	var received atomic.Pointer[eventlogger.Event]
	stopRecv := make(chan struct{})
	recvDone := make(chan struct{})
	parked := make(chan struct{})
	go func() {
		defer close(recvDone)
		if v.V.Ready >= 9 {
			close(parked)
			<-stopRecv
			return
		}
		if v.V.Ready > 0 {
			close(parked)
			select {
			case <-time.After(time.Duration(v.V.Ready) * unit):
			case <-stopRecv:
				return
			}
			tReady.Store(time.Now().UnixNano())
		} else {
			tReady.Store(1)
			close(parked)
		}
		select {
		case e := <-ch:
			received.Store(e)
		case <-stopRecv:
		}
	}()
	<-parked
	if v.V.Ready == 0 {
		time.Sleep(5 * time.Millisecond) // let the receiver reach its receive
	}
	e := &eventlogger.Event{Type: "t", Payload: "p"}
	t0 := time.Now()
	// the call is bounded by the sink's timeout and the context (a few units); a call that is still out 30 s later is the
	// verdict (it is left behind: the harness does not wait for it)
	type pres struct {
		out *eventlogger.Event
		err error
	}
	pc := make(chan pres, 1)
	go func() { o, e2 := cs.Process(ctx, e); pc <- pres{o, e2} }()
	var out *eventlogger.Event
	var perr error
	select {
	case r := <-pc:
		out, perr = r.out, r.err
	case <-time.After(30 * time.Second):
		rep.mm(Mismatch{What: "ChannelSink.Process returns by the shorter of its timeout and the context", Vector: v.V, Expected: fmt.Sprintf("back within %v", timeout), Observed: "still blocked after 30 s"})
		close(stopRecv)
		<-recvDone
		return
	}
	el := time.Since(t0)
	time.Sleep(15 * time.Millisecond)
	close(stopRecv)
	<-recvDone
	got := received.Load()
	outcome := ""
	switch {
	case perr == nil && got != nil:
		outcome = "delivered"
		if got != e {
			rep.mm(Mismatch{What: "the channel received a different event than the one given", Vector: v.V, Expected: "same pointer", Observed: "different"})
		}
	case perr != nil && got == nil:
		if errors.Is(perr, context.Canceled) {
			outcome = "ctx"
		} else {
			outcome = "timeout"
		}
	case perr == nil && got == nil:
		rep.mm(Mismatch{What: "success reported but nothing was handed to the channel (neither outcome)", Vector: v.V, Expected: v.Exp.Allowed, Observed: "nil error, no event"})
		return
	default:
		rep.mm(Mismatch{What: "error reported and the event was also handed to the channel (both outcomes)", Vector: v.V, Expected: v.Exp.Allowed, Observed: perr.Error()})
		return
	}
	if out != nil {
		rep.mm(Mismatch{What: "a sink returned an event", Vector: v.V, Expected: nil, Observed: "event"})
	}
	// measured instants relative to the call
	const never = time.Duration(1 << 60)
	rel := func(a *atomic.Int64) time.Duration {
		switch n := a.Load(); n {
		case 0:
			return never
		case 1:
			return 0
		default:
			if d := time.Unix(0, n).Sub(t0); d > 0 {
				return d
			}
			return 0
		}
	}
	d, c := rel(&tReady), rel(&tCancel)
	m := timeout
	if d < m {
		m = d
	}
	if c < m {
		m = c
	}
	const tol = 30 * time.Millisecond
	allowed := map[string]bool{"delivered": d <= m+tol, "ctx": c <= m+tol, "timeout": timeout <= m+tol}
	if !allowed[outcome] {
		rep.mm(Mismatch{What: "outcome of ChannelSink.Process", Vector: v.V, Expected: fmt.Sprintf("model %v; measured ready=%v cancel=%v timeout=%v", v.Exp.Allowed, d, c, timeout), Observed: outcome})
		return
	}
	if limit := m + tol + 30*time.Millisecond; el > limit && c != never || el > timeout+tol+30*time.Millisecond {
		rep.mm(Mismatch{What: "ChannelSink.Process blocked longer than the shorter of timeout and context", Vector: v.V, Expected: limit.String(), Observed: el.String()})
	}
}

func decodeLine(line string, v interface{}) error {
	var inner string
	if err := json.Unmarshal([]byte(line), &inner); err != nil {
		return err
	}
	return json.Unmarshal([]byte(inner), v)
}

// Run replays all vectors; concretisations = random format contents per vector.
func Run(file string, seed int64, concretisations int) (*Report, error) {
	rep := &Report{Mismatches: []Mismatch{}}
	f, err := os.Open(file)
	if err != nil {
		return nil, err
	}
	defer f.Close()
	rng := rand.New(rand.NewSource(seed))
	sc := bufio.NewScanner(f)
	sc.Buffer(make([]byte, 1<<20), 1<<26)
	var cvecs []*Vec
	for sc.Scan() {
		line := sc.Text()
		if !strings.HasPrefix(line, "\"") {
			continue
		}
		v := &Vec{}
		if err := decodeLine(line, v); err != nil {
			return nil, err
		}
		rep.Vectors++
		if v.T == "c" {
			cvecs = append(cvecs, v)
			continue
		}
		if v.V.Kind == "file" && v.V.Wb == "short" {
			if v.Exp.Retried {
				for _, variant := range []string{"rotating", "toor", "plain"} {
					runFileShort(rep, v, variant, rng)
				}
				continue
			}
			v.V.Wb = "ok" // no bytes for the configured format: the write never happens
		}
		if rep.Stuck >= 3 {
			continue // calls that never return pile up: enough has been seen
		}
		for c := 0; c < concretisations; c++ {
			for _, callers := range []int{1, 4, 16} {
				if callers > 1 && (v.V.Kind == "stdout" || v.V.Kind == "stderr") {
					continue
				}
				runWriterVec(rep, v, callers, rng)
			}
		}
		if v.Exp.OK {
			rep.Nontrivial++
		}
		if len(rep.Samples) < 4 && rep.Vectors%61 == 3 {
			rep.Samples = append(rep.Samples, v)
		}
	}
	for i := 0; i < 3; i++ {
		runCrossSink(rep, rng)
	}
	// channel vectors in parallel (they wait on real time)
	var wg sync.WaitGroup
	var mu sync.Mutex
	for _, v := range cvecs {
		wg.Add(1)
		go func(v *Vec) {
			defer wg.Done()
			sub := &Report{}
			for c := 0; c < concretisations; c++ {
				runChannelVec(sub, v)
			}
			mu.Lock()
			rep.Runs += sub.Runs
			rep.MismatchN += sub.MismatchN
			rep.Mismatches = append(rep.Mismatches, sub.Mismatches...)
			rep.Nontrivial++
			mu.Unlock()
		}(v)
	}
	wg.Wait()
	if len(cvecs) > 0 {
		rep.Samples = append(rep.Samples, cvecs[0])
	}
	RunChannelConc(rep)
	return rep, sc.Err()
}
