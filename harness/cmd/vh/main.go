// Command vh is the Go side of the verification harness: it replays TLC-generated
// behaviours on the real code and records real executions for TLC to validate.
package main

import (
	"encoding/json"
	"fmt"
	"os"
)

type cmdFn func(args []string) int

var commands = map[string]cmdFn{}

func register(name string, fn cmdFn) { commands[name] = fn }

func main() {
	if len(os.Args) < 2 {
		fmt.Fprintln(os.Stderr, "usage: vh <command> [args]")
		os.Exit(2)
	}
	fn, ok := commands[os.Args[1]]
	if !ok {
		fmt.Fprintln(os.Stderr, "unknown command", os.Args[1])
		os.Exit(2)
	}
	os.Exit(fn(os.Args[2:]))
}

func readJSON(path string, v interface{}) error {
	b, err := os.ReadFile(path)
	if err != nil {
		return err
	}
	return json.Unmarshal(b, v)
}

func writeJSON(path string, v interface{}) error {
	b, err := json.MarshalIndent(v, "", " ")
	if err != nil {
		return err
	}
	if path == "-" || path == "" {
		_, err = os.Stdout.Write(append(b, '\n'))
		return err
	}
	return os.WriteFile(path, b, 0o644)
}
