package main

import (
	"flag"
	"strings"

	"verif/harness/locks"
)

func init() {
	register("locks-run", func(args []string) int {
		fs := flag.NewFlagSet("locks-run", flag.ExitOnError)
		out := fs.String("out", "-", "report")
		reps := fs.Int("reps", 1, "repetitions of every scenario")
		only := fs.String("only", "", "run only the scenarios whose op is in this comma separated list")
		fs.Parse(args)
		var results []locks.Result
		hung := 0
		for rep := 0; rep < *reps; rep++ {
			for _, sc := range locks.Scenarios() {
				if *only != "" && !strings.Contains(","+*only+",", ","+sc.Op+",") {
					continue
				}
				r := locks.Run(sc)
				if !r.Returned {
					// confirm on a second run before reporting
					r2 := locks.Run(sc)
					if r2.Returned {
						r.Hung = "(not reproduced on a second run) " + r.Hung
					}
					hung++
				}
				results = append(results, r)
				if hung > 6 {
					break
				}
			}
		}
		if err := writeJSON(*out, map[string]interface{}{"results": results}); err != nil {
			return 2
		}
		return 0
	})
}
