package main

import (
	"flag"
	"fmt"
	"os"

	"verif/harness/encrep"
)

func init() {
	register("enc-replay", func(args []string) int {
		fs := flag.NewFlagSet("enc-replay", flag.ExitOnError)
		kind := fs.String("kind", "policy", "policy | walk | taggable | keys")
		vec := fs.String("vectors", "", "TLC export")
		seed := fs.Int64("seed", 1, "seed")
		out := fs.String("out", "-", "report")
		n := fs.Int("n", 50, "histories (keys)")
		fs.Parse(args)
		var rep interface{}
		var err error
		switch *kind {
		case "policy":
			rep, err = encrep.RunPolicy(*vec, *seed)
		case "walk":
			rep, err = encrep.RunWalk(*vec, *seed)
		case "keys":
			rep, err = encrep.RunKeys(*vec, *seed, *n)
		case "tags":
			rep, err = encrep.RunTags(*vec, *seed)
		case "taggable":
			rep, err = encrep.RunTaggable(*vec, *seed)
		default:
			err = fmt.Errorf("unknown kind %s", *kind)
		}
		if err != nil {
			fmt.Fprintln(os.Stderr, err)
			return 2
		}
		if err := writeJSON(*out, rep); err != nil {
			return 2
		}
		return 0
	})
}
