package main

import (
	"bufio"
	"encoding/json"
	"flag"
	"fmt"
	"os"
	"runtime"
	"strings"
	"time"

	"verif/harness/conc"
)

// parkedOnLocks returns the goroutines of this process that wait for a sync.RWMutex or sync.Mutex (first lines of each).
func parkedOnLocks() string {
	buf := make([]byte, 1<<22)
	buf = buf[:runtime.Stack(buf, true)]
	var out []string
	for _, g := range strings.Split(string(buf), "\n\n") {
		if strings.Contains(g, "sync.(*RWMutex)") || strings.Contains(g, "sync.(*Mutex)") {
			lines := strings.Split(g, "\n")
			if len(lines) > 9 {
				lines = lines[:9]
			}
			out = append(out, strings.Join(lines, " | "))
		}
		if len(out) == 4 {
			break
		}
	}
	if len(out) == 0 {
		return "(no goroutine parked on a lock found in the dump)"
	}
	return "goroutines parked on locks: " + strings.Join(out, " || ")
}

func init() {
	register("conc-record", func(args []string) int {
		fs := flag.NewFlagSet("conc-record", flag.ExitOnError)
		seed := fs.Int64("seed", 1, "seed")
		n := fs.Int("n", 40, "histories")
		hist := fs.String("hist", "", "ndjson output")
		stress := fs.Bool("stress", true, "also run the overwrite and first-use stresses")
		rounds := fs.Int("rounds", 20000, "first-use rounds")
		out := fs.String("out", "-", "report")
		fs.Parse(args)
		f, err := os.Create(*hist)
		if err != nil {
			fmt.Fprintln(os.Stderr, err)
			return 2
		}
		defer f.Close()
		bw := bufio.NewWriter(f)
		defer bw.Flush()
		var problems []conc.Problem
		var samples []interface{}
		ops := 0
		for i := 1; i <= *n; i++ {
			// every public call of the Broker returns: a history that does not finish is a verdict, not a hang of the recorder
			type hres struct {
				h  *conc.History
				ps []conc.Problem
			}
			hc := make(chan hres, 1)
			go func(i int) {
				h, ps := conc.RunHistory(i, *seed*1000+int64(i))
				hc <- hres{h, ps}
			}(i)
			var h *conc.History
			var ps []conc.Problem
			select {
			case r := <-hc:
				h, ps = r.h, r.ps
			case <-time.After(60 * time.Second):
				problems = append(problems, conc.Problem{Prop: "C04", What: fmt.Sprintf("concurrent history %d did not finish within 60 s: Broker calls (registration, getters, threshold setters, Send) never returned - the Broker is stuck", i)})
				*stress = false
				i = *n // the process is wedged with leaked goroutines: stop here
				continue
			}
			problems = append(problems, ps...)
			b, _ := json.Marshal(h)
			bw.Write(b)
			bw.WriteByte('\n')
			ops += len(h.H) / 2
			if len(samples) < 2 && i%13 == 1 {
				samples = append(samples, h)
			}
		}
		if *stress {
			// the stresses call the Broker from many goroutines, some of them from inside nodes: a stress whose calls never
			// come back is a verdict about the Broker (it is stuck), not a hang of the recorder
			wedged := false
			guard := func(name string, fn func() []conc.Problem) {
				if wedged {
					return
				}
				c := make(chan []conc.Problem, 1)
				go func() { c <- fn() }()
				select {
				case ps := <-c:
					problems = append(problems, ps...)
				case <-time.After(300 * time.Second):
					problems = append(problems, conc.Problem{Prop: "C04", What: name + " did not finish within 300 s: Broker calls (Send, registration, removal, threshold setters) never returned - the Broker is stuck; " + parkedOnLocks()})
					wedged = true // leaked goroutines hold locks: stop here
				}
			}
			guard("overwrite stress", func() []conc.Problem { return conc.OverwriteStress(*seed, 400*time.Millisecond) })
			guard("first-use stress", func() []conc.Problem { return conc.FirstUseStress(*seed, *rounds) })
			guard("deny stress", func() []conc.Problem { return conc.DenyStress(*seed, *rounds/4+200) })
			guard("shared-remove stress", func() []conc.Problem { return conc.SharedRemoveStress(*seed, *rounds/10+100) })
			guard("atomicity stress", func() []conc.Problem { return conc.AtomicityStress(*seed, *rounds/20+150) })
			guard("during-send stress", func() []conc.Problem { return conc.DuringSendStress(*seed, *rounds/100+60) })
		}
		if problems == nil {
			problems = []conc.Problem{}
		}
		writeJSON(*out, map[string]interface{}{"histories": *n, "ops": ops, "problems": problems, "samples": samples})
		return 0
	})
	register("timeloc", func(args []string) int {
		fs := flag.NewFlagSet("timeloc", flag.ExitOnError)
		out := fs.String("out", "-", "report")
		fs.Parse(args)
		ps := conc.TimeLocalFirstUse()
		if ps == nil {
			ps = []conc.Problem{}
		}
		writeJSON(*out, map[string]interface{}{"problems": ps})
		return 0
	})
	register("conc-compose", func(args []string) int {
		fs := flag.NewFlagSet("conc-compose", flag.ExitOnError)
		seed := fs.Int64("seed", 1, "seed")
		n := fs.Int("n", 10, "compositions")
		per := fs.Int("per", 40, "sends per sender")
		out := fs.String("out", "-", "report")
		f8 := fs.Bool("f8", false, "register the encrypt pipelines for the same type as the others (known finding F8)")
		fs.Parse(args)
		var results []conc.CompResult
		for i := 0; i < *n; i++ {
			name := fmt.Sprintf("c%d", i)
			if i == 0 {
				name = "all"
			}
			// a composition of stock nodes whose Sends / control calls never come back is a verdict, not a hang of the recorder
			rc := make(chan conc.CompResult, 1)
			go func() { rc <- conc.RunComposition(name, *seed*100+int64(i), 2+i%7, *per, *f8) }()
			select {
			case r := <-rc:
				results = append(results, r)
			case <-time.After(240 * time.Second):
				results = append(results, conc.CompResult{Name: name, Problems: []conc.Problem{{Prop: "C19", What: "composition " + name + " did not finish within 240 s: Sends or control calls (Reopen, Rotate, FlushAll) through stock nodes never returned"}}})
				i = *n // leaked goroutines hold locks: stop here
			}
		}
		if !*f8 {
			results = append(results, conc.GatedStress(*seed, 300*time.Millisecond))
			results = append(results, conc.GatedBrokerStress(*seed, 400*time.Millisecond))
			results = append(results, conc.SharedConfigProbe())
		}
		writeJSON(*out, map[string]interface{}{"results": results})
		return 0
	})
}
