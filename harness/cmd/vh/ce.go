package main

import (
	"flag"
	"fmt"
	"os"

	"verif/harness/cerep"
)

func init() {
	register("ce-replay", func(args []string) int {
		fs := flag.NewFlagSet("ce-replay", flag.ExitOnError)
		vec := fs.String("vectors", "", "TLC export")
		seed := fs.Int64("seed", 1, "seed")
		n := fs.Int("n", 2, "concretisations")
		out := fs.String("out", "-", "report")
		seq := fs.String("seq", "", "TLC export of CeSeq.tla (optional)")
		fs.Parse(args)
		rep, err := cerep.Run(*vec, *seed, *n)
		if err != nil {
			fmt.Fprintln(os.Stderr, err)
			return 2
		}
		if *seq != "" {
			if err := cerep.RunSeq(*seq, rep); err != nil {
				fmt.Fprintln(os.Stderr, err)
				return 2
			}
		}
		if err := writeJSON(*out, rep); err != nil {
			return 2
		}
		return 0
	})
}
