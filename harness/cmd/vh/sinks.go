package main

import (
	"flag"
	"fmt"
	"os"

	"verif/harness/sinksrep"
)

func init() {
	register("chan-conc", func(args []string) int {
		fs := flag.NewFlagSet("chan-conc", flag.ExitOnError)
		out := fs.String("out", "-", "report")
		fs.Parse(args)
		rep := &sinksrep.Report{}
		sinksrep.RunChannelConc(rep)
		if rep.Mismatches == nil {
			rep.Mismatches = []sinksrep.Mismatch{}
		}
		if err := writeJSON(*out, rep); err != nil {
			return 2
		}
		return 0
	})
	register("sinks-replay", func(args []string) int {
		fs := flag.NewFlagSet("sinks-replay", flag.ExitOnError)
		vec := fs.String("vectors", "", "TLC export")
		seed := fs.Int64("seed", 1, "seed")
		n := fs.Int("n", 2, "concretisations per vector")
		out := fs.String("out", "-", "report")
		fs.Parse(args)
		rep, err := sinksrep.Run(*vec, *seed, *n)
		if err != nil {
			fmt.Fprintln(os.Stderr, err)
			return 2
		}
		if err := writeJSON(*out, rep); err != nil {
			return 2
		}
		return 0
	})
}
