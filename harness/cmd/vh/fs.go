package main

import (
	"flag"
	"fmt"
	"math/rand"
	"os"
	"strconv"
	"syscall"

	"verif/harness/fsrep"
)

func init() {
	register("fs-replay", func(args []string) int {
		fs := flag.NewFlagSet("fs-replay", flag.ExitOnError)
		cfgPath := fs.String("cfg", "", "config json")
		edges := fs.String("edges", "", "graph export")
		out := fs.String("out", "-", "report")
		par := fs.Int("par", 8, "parallel replays")
		fs.Parse(args)
		var cfg fsrep.Config
		if err := readJSON(*cfgPath, &cfg); err != nil {
			fmt.Fprintln(os.Stderr, err)
			return 2
		}
		// the configured mode is the mode of the files whatever the process umask is
		syscall.Umask(0o027)
		rep, err := fsrep.Run(&cfg, *edges, *par)
		if err != nil {
			fmt.Fprintln(os.Stderr, "replay:", err)
			return 2
		}
		if err := writeJSON(*out, rep); err != nil {
			return 2
		}
		return 0
	})
}

func init() {
	register("fs-crash-child", func(args []string) int {
		// dir n maxBytes maxFiles toor label k seed
		n, _ := strconv.Atoi(args[1])
		mb, _ := strconv.Atoi(args[2])
		mf, _ := strconv.Atoi(args[3])
		toor, _ := strconv.ParseBool(args[4])
		k, _ := strconv.Atoi(args[6])
		seed, _ := strconv.ParseInt(args[7], 10, 64)
		fsrep.CrashChild(args[0], n, mb, mf, toor, args[5], k, seed)
		return 0
	})
	register("fs-stress", func(args []string) int {
		fs := flag.NewFlagSet("fs-stress", flag.ExitOnError)
		seed := fs.Int64("seed", 1, "seed")
		nconc := fs.Int("conc", 20, "concurrent-writer runs")
		kmax := fs.Int("kmax", 2, "crash at the k-th hit of every label, k = 1..kmax")
		nrand := fs.Int("random", 10, "kills at random instants")
		out := fs.String("out", "-", "report")
		fs.Parse(args)
		self, _ := os.Executable()
		rng := rand.New(rand.NewSource(*seed))
		type concRes struct {
			Cfg        fsrep.ConcConfig `json:"cfg"`
			Mismatches []fsrep.Mismatch `json:"mismatches"`
		}
		rep := struct {
			Conc     []concRes           `json:"conc"`
			Crash    []fsrep.CrashResult `json:"crash"`
			Killed   int                 `json:"killed"`
			Problems int                 `json:"problems"`
		}{}
		for i := 0; i < *nconc; i++ {
			cc := fsrep.ConcConfig{Writers: 1 + rng.Intn(8), PerW: 40 + rng.Intn(60), MaxBytes: []int{0, 150, 300, 1000}[rng.Intn(4)], MaxFiles: rng.Intn(4),
				DurMs: []int{0, 0, 30}[rng.Intn(3)], TOOR: rng.Intn(2) == 0, Reopens: rng.Intn(6), ExtRen: rng.Intn(3), Seed: rng.Int63()}
			mm := fsrep.RunConc(&cc)
			rep.Conc = append(rep.Conc, concRes{cc, mm})
			rep.Problems += len(mm)
		}
		if mm := fsrep.RunFullVolume(); true {
			rep.Conc = append(rep.Conc, concRes{fsrep.ConcConfig{Writers: 1, PerW: 7, Seed: -1}, mm})
			rep.Problems += len(mm)
		}
		if mm := fsrep.RunWriteFault(); true {
			rep.Conc = append(rep.Conc, concRes{fsrep.ConcConfig{Writers: 1, PerW: 5, Seed: -3}, mm})
			rep.Problems += len(mm)
		}
		if mm := fsrep.RunDirRemoved(); true {
			rep.Conc = append(rep.Conc, concRes{fsrep.ConcConfig{Writers: 1, PerW: 3, Seed: -2}, mm})
			rep.Problems += len(mm)
		}
		labels := []string{"fs.opened", "fs.written", "fs.counted", "fs.r.closed", "fs.r.renamed", "fs.r.pruned"}
		for _, toor := range []bool{false, true} {
			for _, lb := range labels {
				for k := 1; k <= *kmax; k++ {
					c := fsrep.CrashCase{Label: lb, K: k*3 - 2, MaxBytes: 300, MaxFiles: []int{0, 2}[k%2], TOOR: toor, Seed: rng.Int63()}
					if lb == "fs.r.pruned" {
						c.MaxFiles = 1
					}
					r := fsrep.RunCrash(self, c)
					rep.Crash = append(rep.Crash, r)
					if r.Killed {
						rep.Killed++
					}
					if r.Problem != "" {
						rep.Problems++
					}
				}
			}
		}
		for i := 0; i < *nrand; i++ {
			c := fsrep.CrashCase{Label: "random", MaxBytes: []int{0, 200, 300}[rng.Intn(3)], MaxFiles: rng.Intn(3), TOOR: rng.Intn(2) == 0, Seed: rng.Int63(), DelayUs: 300 + rng.Intn(4000)}
			r := fsrep.RunCrash(self, c)
			rep.Crash = append(rep.Crash, r)
			if r.Killed {
				rep.Killed++
			}
			if r.Problem != "" {
				rep.Problems++
			}
		}
		if err := writeJSON(*out, rep); err != nil {
			return 2
		}
		return 0
	})
}

func init() {
	register("fs-trace", func(args []string) int {
		fs := flag.NewFlagSet("fs-trace", flag.ExitOnError)
		seed := fs.Int64("seed", 1, "seed")
		n := fs.Int("n", 30, "traces")
		mb := fs.Int("maxbytes", 100, "MaxBytes")
		mf := fs.Int("maxfiles", 0, "MaxFiles")
		toor := fs.Bool("toor", false, "TimestampOnlyOnRotate")
		out := fs.String("out", "fstraces.ndjson", "trace file")
		fs.Parse(args)
		ev, err := fsrep.RecordTraces(fsrep.TraceCfg{MaxBytes: *mb, MaxFiles: *mf, TOOR: *toor}, *seed, *n, *out)
		if err != nil {
			fmt.Fprintln(os.Stderr, err)
			return 2
		}
		fmt.Printf("{\"traces\": %d, \"events\": %d}\n", *n, ev)
		return 0
	})
}
