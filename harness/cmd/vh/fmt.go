package main

import (
	"flag"
	"fmt"
	"os"

	"verif/harness/fmtrep"
)

func init() {
	register("fmt-replay", func(args []string) int {
		fs := flag.NewFlagSet("fmt-replay", flag.ExitOnError)
		vec := fs.String("vectors", "", "TLC export")
		seed := fs.Int64("seed", 1, "seed")
		n := fs.Int("n", 20, "members per class")
		out := fs.String("out", "-", "report")
		fs.Parse(args)
		rep, err := fmtrep.Run(*vec, *seed, *n)
		if err != nil {
			fmt.Fprintln(os.Stderr, err)
			return 2
		}
		tab := fmtrep.Table(*seed, 4, 4, 2000)
		rep.Mismatches = append(rep.Mismatches, tab...)
		rep.MismatchN += len(tab)
		rep.Runs++
		if err := writeJSON(*out, rep); err != nil {
			return 2
		}
		return 0
	})
}
