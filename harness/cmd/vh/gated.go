package main

import (
	"bufio"
	"encoding/json"
	"flag"
	"fmt"
	"os"

	"verif/harness/gatedrep"
)

func init() {
	register("gated-hist", func(args []string) int {
		fs := flag.NewFlagSet("gated-hist", flag.ExitOnError)
		seed := fs.Int64("seed", 1, "seed")
		n := fs.Int("n", 100, "histories")
		e := fs.Int("e", 2, "expiration in clock units")
		broker := fs.Bool("broker", true, "configure a Broker")
		hist := fs.String("hist", "", "ndjson output")
		out := fs.String("out", "-", "report")
		fs.Parse(args)
		f, err := os.Create(*hist)
		if err != nil {
			fmt.Fprintln(os.Stderr, err)
			return 2
		}
		defer f.Close()
		bw := bufio.NewWriter(f)
		defer bw.Flush()
		ops := 0
		var panics []string
		for i := 1; i <= *n; i++ {
			h, p := gatedrep.RunGatedHistory(i, *seed*100003+int64(i), *broker, *e)
			if p != "" {
				panics = append(panics, p)
			}
			b, _ := json.Marshal(h)
			bw.Write(b)
			bw.WriteByte('\n')
			ops += len(h.H) / 2
		}
		if panics == nil {
			panics = []string{}
		}
		writeJSON(*out, map[string]interface{}{"histories": *n, "ops": ops, "panics": panics})
		return 0
	})
	register("gated-replay", func(args []string) int {
		fs := flag.NewFlagSet("gated-replay", flag.ExitOnError)
		cfgPath := fs.String("cfg", "", "config json")
		edges := fs.String("edges", "", "graph export")
		walks := fs.String("walks", "", "walk export")
		out := fs.String("out", "-", "report")
		conc := fs.Int("conc", 0, "concurrent-sender runs")
		fs.Parse(args)
		var cfg gatedrep.Config
		if err := readJSON(*cfgPath, &cfg); err != nil {
			fmt.Fprintln(os.Stderr, err)
			return 2
		}
		rep, err := gatedrep.Run(&cfg, *edges, *walks)
		if err != nil {
			fmt.Fprintln(os.Stderr, "replay:", err)
			return 2
		}
		for i := 0; i < *conc; i++ {
			for _, m := range gatedrep.RunConc(int64(i)*7+int64(cfg.E), 2+i%7, 60, cfg.BrokerSet) {
				rep.MismatchN++
				for _, p := range m.Props {
					rep.ByProp[p]++
				}
				rep.Mismatches = append(rep.Mismatches, m)
			}
			rep.ConcRuns++
		}
		if *conc > 0 {
			for _, n := range []int{5, 17, 40, 300} {
				for _, m := range gatedrep.RunScale(n, cfg.BrokerSet) {
					rep.MismatchN++
					for _, p := range m.Props {
						rep.ByProp[p]++
					}
					rep.Mismatches = append(rep.Mismatches, m)
				}
			}
		}
		if *conc > 0 && cfg.BrokerSet {
			for i := 0; i < 150**conc; i++ {
				for _, m := range gatedrep.RunTicking(int64(i)*131 + int64(cfg.E)) {
					rep.MismatchN++
					for _, p := range m.Props {
						rep.ByProp[p]++
					}
					rep.Mismatches = append(rep.Mismatches, m)
				}
			}
		}
		if *conc > 0 {
			for _, m := range gatedrep.FirstUse(int64(cfg.E), 40**conc) {
				rep.MismatchN++
				for _, p := range m.Props {
					rep.ByProp[p]++
				}
				rep.Mismatches = append(rep.Mismatches, m)
			}
		}
		if err := writeJSON(*out, rep); err != nil {
			return 2
		}
		return 0
	})
}
