package main

import (
	"flag"
	"fmt"
	"os"

	"verif/harness/gatedrep"
)

func init() {
	register("gated-replay", func(args []string) int {
		fs := flag.NewFlagSet("gated-replay", flag.ExitOnError)
		cfgPath := fs.String("cfg", "", "config json")
		edges := fs.String("edges", "", "graph export")
		walks := fs.String("walks", "", "walk export")
		out := fs.String("out", "-", "report")
		fs.Parse(args)
		var cfg gatedrep.Config
		if err := readJSON(*cfgPath, &cfg); err != nil {
			fmt.Fprintln(os.Stderr, err)
			return 2
		}
		rep, err := gatedrep.Run(&cfg, *edges, *walks)
		if err != nil {
			fmt.Fprintln(os.Stderr, "replay:", err)
			return 2
		}
		if err := writeJSON(*out, rep); err != nil {
			return 2
		}
		return 0
	})
}
