package main

import (
	"flag"
	"fmt"
	"os"

	"verif/harness/gatedrep"
)

func init() {
	register("gated-replay", func(args []string) int {
		fs := flag.NewFlagSet("gated-replay", flag.ExitOnError)
		cfgPath := fs.String("cfg", "", "config json")
		edges := fs.String("edges", "", "graph export")
		walks := fs.String("walks", "", "walk export")
		out := fs.String("out", "-", "report")
		conc := fs.Int("conc", 0, "concurrent-sender runs")
		fs.Parse(args)
		var cfg gatedrep.Config
		if err := readJSON(*cfgPath, &cfg); err != nil {
			fmt.Fprintln(os.Stderr, err)
			return 2
		}
		rep, err := gatedrep.Run(&cfg, *edges, *walks)
		if err != nil {
			fmt.Fprintln(os.Stderr, "replay:", err)
			return 2
		}
		for i := 0; i < *conc; i++ {
			for _, m := range gatedrep.RunConc(int64(i)*7+int64(cfg.E), 2+i%7, 60, cfg.BrokerSet) {
				rep.MismatchN++
				for _, p := range m.Props {
					rep.ByProp[p]++
				}
				rep.Mismatches = append(rep.Mismatches, m)
			}
			rep.ConcRuns++
		}
		if err := writeJSON(*out, rep); err != nil {
			return 2
		}
		return 0
	})
}
