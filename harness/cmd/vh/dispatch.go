package main

import (
	"bufio"
	"encoding/json"
	"flag"
	"fmt"
	"os"

	"verif/harness/dispatch"
)

type dispatchReport struct {
	Scenarios int                  `json:"scenarios"`
	Returned  int                  `json:"returned"`
	Cancelled int                  `json:"cancelled"`
	Undecided int                  `json:"oracle_undecided"` // assignment search cut off: execution not judged by the C01/C02 oracles
	Failures  []failureRec         `json:"failures"`
	FailureN  map[string]int       `json:"failure_count"`
	Points    map[string]int       `json:"points"`
	CancelPos map[string]int       `json:"cancel_positions"`
	Samples   []*dispatch.Scenario `json:"samples"`
}

type failureRec struct {
	Prop     string             `json:"prop"`
	What     string             `json:"what"`
	Scenario *dispatch.Scenario `json:"scenario"`
}

func init() {
	register("dispatch-record", func(args []string) int {
		fs := flag.NewFlagSet("dispatch-record", flag.ExitOnError)
		mode := fs.String("mode", "random", "random | positions")
		seed := fs.Int64("seed", 1, "seed")
		n := fs.Int("n", 100, "scenarios (random) / configurations (positions)")
		maxP := fs.Int("maxp", 4, "max pipelines of the sent type")
		maxL := fs.Int("maxl", 5, "max nodes per pipeline")
		reps := fs.Int("reps", 1, "repetitions per position")
		traces := fs.String("traces", "", "ndjson output: one trace per scenario")
		out := fs.String("out", "-", "report")
		progress := fs.String("progress", "", "file receiving the scenario being run (crash localisation)")
		maxFail := fs.Int("maxfail", 8, "stop after this many oracle failures")
		fs.Parse(args)
		var scs []*dispatch.Scenario
		if *mode == "positions" {
			scs = dispatch.GenPositions(*seed, *n, *maxP, *maxL, *reps)
		} else {
			scs = dispatch.GenRandom(*seed, *n, *maxP, *maxL)
		}
		var tw *bufio.Writer
		if *traces != "" {
			f, err := os.Create(*traces)
			if err != nil {
				fmt.Fprintln(os.Stderr, err)
				return 2
			}
			defer f.Close()
			tw = bufio.NewWriter(f)
			defer tw.Flush()
		}
		rep := &dispatchReport{FailureN: map[string]int{}, Points: map[string]int{}, CancelPos: map[string]int{}, Failures: []failureRec{}}
		for _, sc := range scs {
			if *progress != "" {
				b, _ := json.Marshal(sc)
				os.WriteFile(*progress, b, 0o644)
			}
			res := dispatch.Execute(sc)
			rep.Scenarios++
			if res.Returned {
				rep.Returned++
			}
			if res.Inconclusive {
				rep.Undecided++
			}
			if res.Cancelled {
				rep.Cancelled++
				rep.CancelPos[fmt.Sprintf("%s/%d", sc.Cancel.Point, sc.Cancel.K)]++
			}
			for k, v := range res.Points {
				rep.Points[k] += v
			}
			for _, f := range res.Failures {
				rep.FailureN[f.Prop]++
				if len(rep.Failures) < 40 {
					rep.Failures = append(rep.Failures, failureRec{Prop: f.Prop, What: f.What, Scenario: sc})
				}
			}
			if tw != nil && res.Returned {
				b, err := json.Marshal(res)
				if err != nil {
					fmt.Fprintln(os.Stderr, err)
					return 2
				}
				tw.Write(b)
				tw.WriteByte('\n')
			}
			if len(rep.Failures) >= *maxFail {
				break
			}
			if len(rep.Samples) < 5 && rep.Scenarios%37 == 1 {
				rep.Samples = append(rep.Samples, sc)
			}
		}
		if *progress != "" {
			os.WriteFile(*progress, []byte("done"), 0o644)
		}
		if err := writeJSON(*out, rep); err != nil {
			return 2
		}
		return 0
	})
}
