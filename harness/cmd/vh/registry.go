package main

import (
	"bufio"
	"encoding/json"
	"flag"
	"fmt"
	"os"

	"verif/harness/registry"
)

func init() {
	register("registry-hist", func(args []string) int {
		fs := flag.NewFlagSet("registry-hist", flag.ExitOnError)
		seed := fs.Int64("seed", 1, "seed")
		n := fs.Int("n", 200, "histories")
		hist := fs.String("hist", "", "ndjson output")
		fs.Parse(args)
		f, err := os.Create(*hist)
		if err != nil {
			fmt.Fprintln(os.Stderr, err)
			return 2
		}
		defer f.Close()
		bw := bufio.NewWriter(f)
		defer bw.Flush()
		for i := 1; i <= *n; i++ {
			h := registry.RunRegistryHistory(i, *seed*7919+int64(i))
			b, _ := json.Marshal(h)
			bw.Write(b)
			bw.WriteByte('\n')
		}
		return 0
	})
}

func init() {
	register("registry-replay", func(args []string) int {
		fs := flag.NewFlagSet("registry-replay", flag.ExitOnError)
		cfgPath := fs.String("cfg", "", "replay configuration (json)")
		edges := fs.String("edges", "", "TLC graph export")
		walks := fs.String("walks", "", "TLC simulation export")
		out := fs.String("out", "-", "report file")
		fs.Parse(args)
		var cfg registry.Config
		if err := readJSON(*cfgPath, &cfg); err != nil {
			fmt.Fprintln(os.Stderr, "config:", err)
			return 2
		}
		rep, err := registry.Run(&cfg, *edges, *walks, 6)
		if err != nil {
			fmt.Fprintln(os.Stderr, "replay:", err)
			return 2
		}
		if err := writeJSON(*out, rep); err != nil {
			fmt.Fprintln(os.Stderr, "report:", err)
			return 2
		}
		return 0
	})
}

func init() {
	register("validate-replay", func(args []string) int {
		fs := flag.NewFlagSet("validate-replay", flag.ExitOnError)
		vec := fs.String("vectors", "", "TLC export of Validate")
		out := fs.String("out", "-", "report file")
		fs.Parse(args)
		rep, err := registry.RunValidate(*vec)
		if err != nil {
			fmt.Fprintln(os.Stderr, "validate:", err)
			return 2
		}
		if err := writeJSON(*out, rep); err != nil {
			return 2
		}
		return 0
	})
}
