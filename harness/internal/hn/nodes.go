// Package hn contains the harness nodes used to observe a real Broker: every
// node records each call with a global sequence number, the pointer it was
// handed and the pointer it returned, and counts Close and Reopen per object.
package hn

import (
	"context"
	"errors"
	"os"
	"sync"
	"sync/atomic"

	"github.com/hashicorp/eventlogger"
)

var (
	ErrClose  = errors.New("harness: injected close failure")
	ErrReopen = errors.New("harness: injected reopen failure")
	// the same failure the way a node reports it whose file has gone: it is ErrReopen and it is os.ErrNotExist
	ErrReopenMissing error = missingErr{}
	ErrProcess             = errors.New("harness: injected process failure")
)

// Call is one Process invocation as seen by the node itself.
type Call struct {
	Seq  int64
	Obj  *Node
	In   *eventlogger.Event
	Out  *eventlogger.Event
	Err  error
	Type eventlogger.EventType
}

// Log collects calls of all nodes of one world.
type Log struct {
	mu    sync.Mutex
	seq   int64
	Calls []Call
}

func (l *Log) next() int64 { return atomic.AddInt64(&l.seq, 1) }

func (l *Log) add(c Call) {
	l.mu.Lock()
	l.Calls = append(l.Calls, c)
	l.mu.Unlock()
}

// Take returns and clears the recorded calls.
func (l *Log) Take() []Call {
	l.mu.Lock()
	defer l.mu.Unlock()
	c := l.Calls
	l.Calls = nil
	return c
}

// Behaviour of a node's Process.
type Behaviour int

const (
	Pass    Behaviour = iota // return a fresh copy of the event (distinct pointer, same content)
	Same                     // return the very event received
	Drop                     // return nil, nil
	Fail                     // return nil, err
	Replace                  // return a new event with a different payload
)

type missingErr struct{}

func (missingErr) Error() string   { return "harness: injected reopen failure: file does not exist" }
func (missingErr) Unwrap() []error { return []error{ErrReopen, os.ErrNotExist} }

// reopenErr picks the spelling of the injected Reopen failure by node.
func reopenErr(id string, ver int) error {
	if (len(id)+ver)%2 == 0 {
		return ErrReopenMissing
	}
	return ErrReopen
}

// Node is a harness node. ID and Ver identify the object in the model.
type Node struct {
	ID   string
	Ver  int
	Kind eventlogger.NodeType
	Beh  Behaviour
	Err  error // error returned when Beh == Fail (defaults to ErrProcess)

	CloseFails  bool
	ReopenFails atomic.Bool
	Closes      atomic.Int64
	Reopens     atomic.Int64
	IsWrapped   bool // registered behind Wrapped: Reopen is counted / failed by the outermost wrapper

	// Gate, when non-nil, is received from inside Process before returning
	// (lets a driver keep a node "running").
	Gate chan struct{}
	// Entered, when non-nil, is signalled when Process has been entered.
	Entered chan struct{}
	// OnProcess, when non-nil, is called inside Process (re-entrancy tests).
	OnProcess func(ctx context.Context, e *eventlogger.Event)

	L *Log
}

func (n *Node) Process(ctx context.Context, e *eventlogger.Event) (*eventlogger.Event, error) {
	seq := int64(0)
	if n.L != nil {
		seq = n.L.next()
	}
	if n.Entered != nil {
		select {
		case n.Entered <- struct{}{}:
		default:
		}
	}
	if n.OnProcess != nil {
		n.OnProcess(ctx, e)
	}
	if n.Gate != nil {
		<-n.Gate
	}
	var out *eventlogger.Event
	var err error
	beh := n.Beh
	if n.Kind == eventlogger.NodeTypeSink && (beh == Pass || beh == Same || beh == Replace) {
		beh = Drop // sinks are leaves: success is (nil, nil)
	}
	switch beh {
	case Pass:
		out = CopyEvent(e)
	case Same:
		out = e
	case Drop:
	case Fail:
		err = n.Err
		if err == nil {
			err = ErrProcess
		}
	case Replace:
		out = CopyEvent(e)
		out.Payload = &Replaced{By: n.ID, Orig: e.Payload}
	}
	if n.L != nil {
		var t eventlogger.EventType
		if e != nil {
			t = e.Type
		}
		n.L.add(Call{Seq: seq, Obj: n, In: e, Out: out, Err: err, Type: t})
	}
	return out, err
}

// Replaced is the payload produced by a node with behaviour Replace.
type Replaced struct {
	By   string
	Orig interface{}
}

func (n *Node) Reopen() error {
	if n.IsWrapped {
		// the registered node is the wrapper: its own Reopen counts and fails (see Wrapped.Reopen)
		return nil
	}
	n.Reopens.Add(1)
	if n.ReopenFails.Load() {
		return reopenErr(n.ID, n.Ver)
	}
	return nil
}

func (n *Node) Type() eventlogger.NodeType { return n.Kind }

// CopyEvent makes a new Event with the same content (the Formatted table is
// copied through the public API).
func CopyEvent(e *eventlogger.Event) *eventlogger.Event {
	if e == nil {
		return nil
	}
	c := &eventlogger.Event{Type: e.Type, CreatedAt: e.CreatedAt, Payload: e.Payload, Formatted: map[string][]byte{}}
	for k, v := range e.Formatted {
		c.Formatted[k] = v
	}
	return c
}

// Closer is a Node that also implements eventlogger.Closer.
type Closer struct{ *Node }

func (c *Closer) Close(ctx context.Context) error {
	c.Closes.Add(1)
	if c.CloseFails {
		return ErrClose
	}
	return nil
}

// Wrapped hides a node behind Unwrap (eventlogger.NodeUnwrapper).
type Wrapped struct {
	Inner eventlogger.Node
	Outer *Node // set on the outermost wrapper, i.e. the object that is registered with the Broker
}

func (w *Wrapped) Process(ctx context.Context, e *eventlogger.Event) (*eventlogger.Event, error) {
	return w.Inner.Process(ctx, e)
}
func (w *Wrapped) Reopen() error {
	if w.Outer != nil {
		// what Broker.Reopen owes every registered node is a call of *its* Reopen, not of whatever it wraps
		w.Outer.Reopens.Add(1)
		if w.Outer.ReopenFails.Load() {
			return reopenErr(w.Outer.ID, w.Outer.Ver)
		}
	}
	return w.Inner.Reopen()
}
func (w *Wrapped) Type() eventlogger.NodeType { return w.Inner.Type() }
func (w *Wrapped) Unwrap() eventlogger.Node   { return w.Inner }

// Decorator is a wrapper with a Close of its own (Closer and NodeUnwrapper at once): the node the Broker
// has to close is the decorator, once; what it wraps is the decorator's business (it does not delegate, so a
// Close that reaches the inner Closer as well shows up as a second close of the same model node).
type Decorator struct{ Wrapped }

func (d *Decorator) Close(ctx context.Context) error {
	d.Outer.Closes.Add(1)
	if d.Outer.CloseFails {
		return ErrClose
	}
	return nil
}

// Wrap returns the eventlogger.Node to register for n: style 0,1 = the node as a
// Closer, 2 = Closer behind one Unwrap, 3 = behind two, 4 = not a Closer at all,
// 5 = a Closer that also unwraps to another Closer.
func Wrap(n *Node, style int) (node eventlogger.Node, observableClose bool) {
	switch style {
	case 2:
		n.IsWrapped = true
		return &Wrapped{Inner: &Closer{n}, Outer: n}, true
	case 3:
		n.IsWrapped = true
		return &Wrapped{Inner: &Wrapped{Inner: &Closer{n}}, Outer: n}, true
	case 4:
		return n, false
	case 5:
		n.IsWrapped = true
		return &Decorator{Wrapped{Inner: &Closer{n}, Outer: n}}, true
	default:
		return &Closer{n}, true
	}
}

// KindOf maps the model's kind names to node types. "unknown" maps to a value
// that is none of the declared node types.
func KindOf(k string) eventlogger.NodeType {
	switch k {
	case "filter":
		return eventlogger.NodeTypeFilter
	case "formatter":
		return eventlogger.NodeTypeFormatter
	case "sink":
		return eventlogger.NodeTypeSink
	case "ff":
		return eventlogger.NodeTypeFormatterFilter
	default:
		return eventlogger.NodeType(0)
	}
}

// NewBroker creates a Broker the way an application with a shared option list does: the options (which restate the
// defaults) come from a slice with spare capacity. Options given to one call are that call's alone.
func NewBroker() (*eventlogger.Broker, error) {
	opts := make([]eventlogger.Option, 0, 8)
	opts = append(opts, eventlogger.WithNodeRegistrationPolicy(eventlogger.AllowOverwrite), eventlogger.WithPipelineRegistrationPolicy(eventlogger.AllowOverwrite))
	return eventlogger.NewBroker(opts...)
}
