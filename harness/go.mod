module verif/harness

go 1.23

require (
	github.com/hashicorp/eventlogger v0.2.10
	github.com/hashicorp/eventlogger/filters/encrypt v0.1.8
	github.com/hashicorp/go-kms-wrapping/v2 v2.0.18
	github.com/hashicorp/go-multierror v1.1.1
	google.golang.org/protobuf v1.36.4
)

require (
	github.com/davecgh/go-spew v1.1.1 // indirect
	github.com/hashicorp/errwrap v1.1.0 // indirect
	github.com/hashicorp/go-secure-stdlib/base62 v0.1.2 // indirect
	github.com/hashicorp/go-secure-stdlib/parseutil v0.1.9 // indirect
	github.com/hashicorp/go-secure-stdlib/strutil v0.1.2 // indirect
	github.com/hashicorp/go-sockaddr v1.0.7 // indirect
	github.com/hashicorp/go-uuid v1.0.3 // indirect
	github.com/mitchellh/copystructure v1.2.0 // indirect
	github.com/mitchellh/mapstructure v1.5.0 // indirect
	github.com/mitchellh/pointerstructure v1.2.1 // indirect
	github.com/mitchellh/reflectwalk v1.0.2 // indirect
	github.com/pmezard/go-difflib v1.0.0 // indirect
	github.com/ryanuber/go-glob v1.0.0 // indirect
	github.com/stretchr/testify v1.10.0 // indirect
	golang.org/x/crypto v0.32.0 // indirect
	gopkg.in/yaml.v3 v3.0.1 // indirect
)

replace github.com/hashicorp/eventlogger => /repo

replace github.com/hashicorp/eventlogger/filters/encrypt => /repo/filters/encrypt
