module verif/harness

go 1.23

require (
	github.com/hashicorp/eventlogger v0.2.10
	github.com/hashicorp/eventlogger/filters/encrypt v0.1.8
)

require (
	github.com/hashicorp/errwrap v1.1.0 // indirect
	github.com/hashicorp/go-multierror v1.1.1 // indirect
)

replace github.com/hashicorp/eventlogger => /repo

replace github.com/hashicorp/eventlogger/filters/encrypt => /repo/filters/encrypt
