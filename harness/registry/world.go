// Package registry replays behaviours of the TLA+ module Registry on a real
// eventlogger.Broker and compares every call's result and the observable
// projection of the broker's state with the model.
package registry

import (
	"context"
	"encoding/json"
	"errors"
	"fmt"
	"hash/fnv"
	"sort"
	"strings"
	"sync/atomic"
	"time"

	"github.com/hashicorp/eventlogger"

	"verif/harness/internal/hn"
)

// Action is one model action (fields depend on A).
type Action struct {
	A      string          `json:"a"`
	N      string          `json:"n,omitempty"`
	Pol    string          `json:"pol,omitempty"`
	T      string          `json:"t,omitempty"`
	P      string          `json:"p,omitempty"`
	Ids    []string        `json:"ids,omitempty"`
	Which  string          `json:"which,omitempty"`
	V      json.RawMessage `json:"v,omitempty"`
	R      string          `json:"r,omitempty"`
	Closed [][]interface{} `json:"closed,omitempty"`
	Cerr   bool            `json:"cerr,omitempty"`
}

// Proj is the model's observable projection of a state.
type Proj struct {
	Deliv   map[string][][]interface{} `json:"deliv"` // t -> set of <<pid, <<id,ver>>...>>
	IsAny   map[string]bool            `json:"isany"`
	Graph   map[string]bool            `json:"graph"`
	Thr     map[string]map[string]int  `json:"thr"`
	SendErr map[string]bool            `json:"senderr"`
	Reopen  [][]interface{}            `json:"reopen"`
	Reg     map[string]int             `json:"reg"`
	InUse   map[string]string          `json:"inuse"`
}

// Config describes the model constants the replayer needs.
type Config struct {
	Types      []string          `json:"types"`
	NIDs       []string          `json:"nids"`
	Kinds      map[string]string `json:"kinds"`
	CloseFails []string          `json:"close_fails"`
	Seed       int64             `json:"seed"`
}

type obj struct {
	n        *hn.Node
	reg      eventlogger.Node
	canClose bool
	id       string
	ver      int
}

// World is one real Broker plus the harness objects registered with it.
type World struct {
	napply int
	cfg    *Config
	b      *eventlogger.Broker
	log    *hn.Log
	cur    map[string]int  // id -> number of successful registrations
	objs   map[string]*obj // "id#ver" -> object
	tries  map[string]int  // id -> attempts (for concretisation only)
}

func key(id string, ver int) string { return fmt.Sprintf("%s#%d", id, ver) }

func NewWorld(cfg *Config) *World {
	b, err := hn.NewBroker()
	if err != nil {
		panic(err)
	}
	return &World{cfg: cfg, b: b, log: &hn.Log{}, cur: map[string]int{}, objs: map[string]*obj{}, tries: map[string]int{}}
}

func (w *World) style(id string, ver int) int {
	h := fnv.New32a()
	fmt.Fprintf(h, "%d/%s/%d", w.cfg.Seed, id, ver)
	v := h.Sum32() % 16
	switch {
	case v < 6:
		return 0
	case v < 9:
		return 2
	case v < 12:
		return 3
	case v < 14:
		return 5
	default:
		return 4
	}
}

func contains(xs []string, x string) bool {
	for _, y := range xs {
		if y == x {
			return true
		}
	}
	return false
}

// invalidPolicies are spellings that are not one of the two policy values (values are compared exactly: a different
// case, padding or the empty string is an invalid policy)
var invalidPolicies = []string{"NoSuchPolicy", "", "denyoverwrite", "DENYOVERWRITE", "allowoverwrite", "DenyOverwrite ", " AllowOverwrite", "Deny", "deny-overwrite"}
var invalidPick atomic.Int64

func invalidPolicy() eventlogger.RegistrationPolicy {
	return eventlogger.RegistrationPolicy(invalidPolicies[int(invalidPick.Add(1))%len(invalidPolicies)])
}

func nodeOpt(pol string) []eventlogger.Option {
	switch pol {
	case "allow":
		return []eventlogger.Option{eventlogger.WithNodeRegistrationPolicy(eventlogger.AllowOverwrite)}
	case "deny":
		return []eventlogger.Option{eventlogger.WithNodeRegistrationPolicy(eventlogger.DenyOverwrite)}
	case "invalid":
		return invalidList(eventlogger.WithNodeRegistrationPolicy(invalidPolicy()))
	}
	return nil
}

var invalidListN atomic.Int64

// invalidList spells "an invalid option was given": alone, or among valid options of the other kind / a nil option
// (one bad option refuses the call, wherever it stands in the list).
func invalidList(bad eventlogger.Option) []eventlogger.Option {
	switch invalidListN.Add(1) % 4 {
	case 1:
		return []eventlogger.Option{bad, eventlogger.WithNodeRegistrationPolicy(eventlogger.AllowOverwrite), eventlogger.WithPipelineRegistrationPolicy(eventlogger.AllowOverwrite)}
	case 2:
		return []eventlogger.Option{eventlogger.WithPipelineRegistrationPolicy(eventlogger.AllowOverwrite), bad, nil, eventlogger.WithNodeRegistrationPolicy(eventlogger.DenyOverwrite)}
	case 3:
		return []eventlogger.Option{nil, bad, eventlogger.WithNodeRegistrationPolicy(eventlogger.AllowOverwrite)}
	}
	return []eventlogger.Option{bad}
}

func pipeOpt(pol string) []eventlogger.Option {
	switch pol {
	case "allow":
		return []eventlogger.Option{eventlogger.WithPipelineRegistrationPolicy(eventlogger.AllowOverwrite)}
	case "deny":
		return []eventlogger.Option{eventlogger.WithPipelineRegistrationPolicy(eventlogger.DenyOverwrite)}
	case "invalid":
		return invalidList(eventlogger.WithPipelineRegistrationPolicy(invalidPolicy()))
	}
	return nil
}

// Result of applying one action to the real broker.
type Result struct {
	R      string   `json:"r"`
	Closed []string `json:"closed,omitempty"` // "id#ver" of objects closed by this call (observable ones)
	Cerr   bool     `json:"cerr,omitempty"`
}

func (w *World) closeCounts() map[string]int64 {
	m := map[string]int64{}
	for k, o := range w.objs {
		m[k] = o.n.Closes.Load()
	}
	return m
}

func (w *World) closedSince(before map[string]int64) []string {
	var out []string
	for k, o := range w.objs {
		if d := o.n.Closes.Load() - before[k]; d > 0 {
			for i := int64(0); i < d; i++ {
				out = append(out, k)
			}
		}
	}
	sort.Strings(out)
	return out
}

// Apply performs the action on the real broker and classifies the outcome.
func (w *World) Apply(a *Action) Result {
	ctx := context.Background()
	w.napply++
	if (a.A == "RPAN" || a.A == "RemoveNode") && (int(w.cfg.Seed)+w.napply)%3 == 0 {
		// a caller that has given up already: the registry does what it does atomically all the same, and says so
		c, cancel := context.WithCancel(ctx)
		cancel()
		ctx = c
	}
	switch a.A {
	case "RegisterNode":
		before := w.closeCounts()
		ver := w.cur[a.N] + 1
		n := &hn.Node{ID: a.N, Ver: ver, Kind: hn.KindOf(w.cfg.Kinds[a.N]), Beh: hn.Pass, L: w.log,
			CloseFails: contains(w.cfg.CloseFails, a.N)}
		reg, can := hn.Wrap(n, w.style(a.N, ver))
		err := w.b.RegisterNode(eventlogger.NodeID(a.N), reg, nodeOpt(a.Pol)...)
		if err != nil {
			return Result{R: "err", Closed: w.closedSince(before)}
		}
		w.cur[a.N] = ver
		w.objs[key(a.N, ver)] = &obj{n: n, reg: reg, canClose: can, id: a.N, ver: ver}
		return Result{R: "ok", Closed: w.closedSince(before)}
	case "RegisterPipeline":
		before := w.closeCounts()
		ids := make([]eventlogger.NodeID, len(a.Ids))
		for i, s := range a.Ids {
			ids[i] = eventlogger.NodeID(s)
		}
		err := w.b.RegisterPipeline(eventlogger.Pipeline{PipelineID: eventlogger.PipelineID(a.P), EventType: eventlogger.EventType(a.T), NodeIDs: ids}, pipeOpt(a.Pol)...)
		// the definition stays the caller's: what it does with its slice afterwards is no business of the registry
		for i := range ids {
			ids[i] = "scribbled-over-by-the-caller"
		}
		if err != nil {
			return Result{R: "err", Closed: w.closedSince(before)}
		}
		return Result{R: "ok", Closed: w.closedSince(before)}
	case "RemovePipeline":
		before := w.closeCounts()
		if err := w.b.RemovePipeline(eventlogger.EventType(a.T), eventlogger.PipelineID(a.P)); err != nil {
			return Result{R: "err", Closed: w.closedSince(before)}
		}
		return Result{R: "ok", Closed: w.closedSince(before)}
	case "RPAN":
		before := w.closeCounts()
		ok, err := w.b.RemovePipelineAndNodes(ctx, eventlogger.EventType(a.T), eventlogger.PipelineID(a.P))
		res := Result{R: "false", Closed: w.closedSince(before)}
		if ok {
			res.R = "true"
			res.Cerr = err != nil
		} else if err == nil {
			res.R = "false-noerr"
		}
		return res
	case "RemoveNode":
		before := w.closeCounts()
		err := w.b.RemoveNode(ctx, eventlogger.NodeID(a.N))
		res := Result{Closed: w.closedSince(before)}
		switch {
		case err == nil:
			res.R = "ok"
		case errors.Is(err, eventlogger.ErrNodeNotFound):
			res.R = "notfound"
		case errors.Is(err, hn.ErrClose):
			res.R = "closeerr"
		default:
			res.R = "inuse"
		}
		return res
	case "SetThreshold":
		v := -1
		if err := json.Unmarshal(a.V, &v); err != nil {
			v = -1
		}
		var err error
		if a.Which == "all" {
			err = w.b.SetSuccessThreshold(eventlogger.EventType(a.T), v)
		} else {
			err = w.b.SetSuccessThresholdSinks(eventlogger.EventType(a.T), v)
		}
		if err != nil {
			return Result{R: "err"}
		}
		return Result{R: "ok"}
	}
	panic("unknown action " + a.A)
}

// Obs is what the harness observes on the real broker in a state.
type Obs struct {
	Deliv     map[string][]string `json:"deliv"`    // t -> sorted traversal strings "a#1>m#1>s#1"
	Complete  map[string][]string `json:"complete"` // t -> sorted Complete() ids
	Sinks     map[string][]string `json:"sinks"`
	Warn      map[string]int      `json:"warn"`
	IsAny     map[string]bool     `json:"isany"`
	Thr       map[string][3]int   `json:"thr"` // all, sinks, ok(0/1)
	SendErr   map[string]bool     `json:"senderr"`
	Reopen    []string            `json:"reopen"`
	ReopenErr bool                `json:"reopen_err"`
	// the same with a context that is already done: Reopen may refuse (error) but must not report success while
	// it skipped nodes
	ReopenDone    []string `json:"reopen_done_ctx"`
	ReopenDoneErr bool     `json:"reopen_done_ctx_err"`
	Anomaly       []string `json:"anomaly,omitempty"`
}

type sendPayload struct{ N int }

// Observe runs the non-mutating probes: one Send per type, IsAny, thresholds, Reopen.
func (w *World) Observe() Obs {
	o := Obs{Deliv: map[string][]string{}, Complete: map[string][]string{}, Sinks: map[string][]string{}, Warn: map[string]int{},
		IsAny: map[string]bool{}, Thr: map[string][3]int{}, SendErr: map[string]bool{}}
	for _, t := range w.cfg.Types {
		w.log.Take()
		payload := &sendPayload{N: 1}
		ctx, cancel := context.WithTimeout(context.Background(), 20*time.Second)
		st, err := w.b.Send(ctx, eventlogger.EventType(t), payload)
		cancel()
		calls := w.log.Take()
		o.SendErr[t] = err != nil
		for _, id := range st.Complete() {
			o.Complete[t] = append(o.Complete[t], string(id))
		}
		for _, id := range st.CompleteSinks() {
			o.Sinks[t] = append(o.Sinks[t], string(id))
		}
		sort.Strings(o.Complete[t])
		sort.Strings(o.Sinks[t])
		o.Warn[t] = len(st.Warnings)
		trs, anomalies := Traversals(calls)
		for _, tr := range trs {
			o.Deliv[t] = append(o.Deliv[t], tr)
		}
		sort.Strings(o.Deliv[t])
		for _, c := range calls {
			if string(c.Type) != t {
				anomalies = append(anomalies, fmt.Sprintf("node %s#%d saw event of type %q during Send(%q)", c.Obj.ID, c.Obj.Ver, c.Type, t))
			}
			if c.In != nil && c.In.Payload != interface{}(payload) {
				anomalies = append(anomalies, fmt.Sprintf("node %s#%d saw a different payload", c.Obj.ID, c.Obj.Ver))
			}
		}
		o.Anomaly = append(o.Anomaly, anomalies...)
		o.IsAny[t] = w.b.IsAnyPipelineRegistered(eventlogger.EventType(t))
		a, ok1 := w.b.SuccessThreshold(eventlogger.EventType(t))
		s, ok2 := w.b.SuccessThresholdSinks(eventlogger.EventType(t))
		okv := 0
		if ok1 && ok2 {
			okv = 1
		} else if ok1 != ok2 {
			okv = 2
		}
		o.Thr[t] = [3]int{a, s, okv}
	}
	before := map[string]int64{}
	for k, ob := range w.objs {
		before[k] = ob.n.Reopens.Load()
	}
	err := w.b.Reopen(context.Background())
	o.ReopenErr = err != nil
	for k, ob := range w.objs {
		if ob.n.Reopens.Load() > before[k] {
			o.Reopen = append(o.Reopen, k)
		}
	}
	sort.Strings(o.Reopen)
	for k, ob := range w.objs {
		before[k] = ob.n.Reopens.Load()
	}
	dctx, cancel := context.WithCancel(context.Background())
	cancel()
	o.ReopenDoneErr = w.b.Reopen(dctx) != nil
	for k, ob := range w.objs {
		if ob.n.Reopens.Load() > before[k] {
			o.ReopenDone = append(o.ReopenDone, k)
		}
	}
	sort.Strings(o.ReopenDone)
	return o
}

// ReopenFailing makes exactly the object k fail its Reopen and reports whether
// Broker.Reopen returned an error that carries the injected failure.
func (w *World) ReopenFailing(k string) (gotErr bool, carries bool) {
	ob := w.objs[k]
	if ob == nil {
		return false, false // the model speaks of an object the broker never accepted: reported by the caller as a mismatch
	}
	ob.n.ReopenFails.Store(true)
	err := w.b.Reopen(context.Background())
	ob.n.ReopenFails.Store(false)
	return err != nil, errors.Is(err, hn.ErrReopen)
}

// Traversals reconstructs pipeline traversals from node calls: every harness
// node returns a fresh event, so the call that received pointer X follows the
// call that returned X. Roots are the calls whose input no call returned.
func Traversals(calls []hn.Call) (trs []string, anomalies []string) {
	sort.Slice(calls, func(i, j int) bool { return calls[i].Seq < calls[j].Seq })
	produced := map[*eventlogger.Event]int{}
	for i, c := range calls {
		if c.Out != nil {
			produced[c.Out] = i
		}
	}
	next := map[int][]int{}
	var roots []int
	for i, c := range calls {
		if p, ok := produced[c.In]; ok {
			next[p] = append(next[p], i)
			if calls[p].Seq > c.Seq {
				anomalies = append(anomalies, "node called before its predecessor returned")
			}
		} else {
			roots = append(roots, i)
		}
	}
	var rootIn *eventlogger.Event
	for _, r := range roots {
		if rootIn == nil {
			rootIn = calls[r].In
		} else if calls[r].In != rootIn {
			anomalies = append(anomalies, "roots received different events")
		}
	}
	if rootIn != nil {
		if rootIn.CreatedAt.IsZero() {
			anomalies = append(anomalies, "first node saw an event without creation time")
		}
		if len(rootIn.Formatted) != 0 {
			anomalies = append(anomalies, "first node saw a non-empty format table")
		}
	}
	for _, r := range roots {
		var parts []string
		i := r
		for {
			parts = append(parts, key(calls[i].Obj.ID, calls[i].Obj.Ver))
			nx := next[i]
			if len(nx) == 0 {
				break
			}
			if len(nx) > 1 {
				anomalies = append(anomalies, fmt.Sprintf("event returned by %s was handed to %d nodes", parts[len(parts)-1], len(nx)))
			}
			i = nx[0]
		}
		trs = append(trs, strings.Join(parts, ">"))
	}
	return trs, anomalies
}
