package registry

import (
	"bufio"
	"encoding/json"
	"fmt"
	"os"
	"reflect"
	"sort"
	"strings"
	"sync/atomic"
	"time"
)

// Edge is one exported model transition: the spanning-tree path of its source
// state, the action with its expected result, and the projection of the target.
type Edge struct {
	P    []Action `json:"p"`
	A    Action   `json:"a"`
	Proj Proj     `json:"proj"`
}

// Step of a simulated walk.
type Step struct {
	A    Action `json:"a"`
	Proj Proj   `json:"proj"`
}

// Mismatch between model and implementation.
type Mismatch struct {
	Props    []string    `json:"props"`
	What     string      `json:"what"`
	Path     []Action    `json:"path"`
	Action   *Action     `json:"action,omitempty"`
	Expected interface{} `json:"expected"`
	Observed interface{} `json:"observed"`
	Drift    bool        `json:"drift,omitempty"`
}

// Report of a replay run.
type Report struct {
	Edges        int            `json:"edges"`
	Walks        int            `json:"walks"`
	Calls        int            `json:"calls"`
	Comparisons  int            `json:"comparisons"`
	Nontrivial   int            `json:"distinct_nontrivial"`
	MismatchN    int            `json:"mismatch_count"`
	DriftN       int            `json:"drift_count"`
	ByProp       map[string]int `json:"by_prop"`
	Mismatches   []Mismatch     `json:"mismatches"`
	Samples      []interface{}  `json:"samples"`
	ActionCounts map[string]int `json:"action_counts"`
	Hung         int            `json:"hung"` // replays abandoned because a Broker call did not return
}

var hungTotal atomic.Int64

// guarded runs one replay under a watchdog: a Broker call that never returns must not take the replayer with it.
func (r *replayer) guarded(path []Action, last *Action, f func()) {
	if hungTotal.Load() >= 3 {
		return // the Broker hangs: what is left of the export is not replayed (reported through Hung)
	}
	fin := make(chan struct{})
	go func() { f(); close(fin) }()
	select {
	case <-fin:
	case <-time.After(10 * time.Second):
		hungTotal.Add(1)
		r.rep.Hung++
		r.mismatch(Mismatch{Props: []string{"C12", "C05"}, What: "a Broker call did not return within 10 s while this history was replayed (every node returns at once): a failed or completed call left the Broker locked", Path: path, Action: last, Expected: "returns", Observed: "blocked"})
	}
}

type replayer struct {
	cfg    *Config
	rep    *Report
	seenNT map[string]bool
}

func (r *replayer) mismatch(m Mismatch) {
	if m.Drift {
		r.rep.DriftN++
	} else {
		r.rep.MismatchN++
		for _, p := range m.Props {
			r.rep.ByProp[p]++
		}
	}
	if len(r.rep.Mismatches) < 60 {
		r.rep.Mismatches = append(r.rep.Mismatches, m)
	}
}

func expDeliv(p *Proj, t string) []string {
	var out []string
	for _, e := range p.Deliv[t] {
		// e = [pid, [[id,ver],...]]
		tr := e[1].([]interface{})
		var parts []string
		for _, x := range tr {
			pair := x.([]interface{})
			parts = append(parts, key(pair[0].(string), int(pair[1].(float64))))
		}
		out = append(out, strings.Join(parts, ">"))
	}
	sort.Strings(out)
	return out
}

func expSinks(p *Proj, t string) []string {
	var out []string
	for _, e := range p.Deliv[t] {
		tr := e[1].([]interface{})
		pair := tr[len(tr)-1].([]interface{})
		out = append(out, pair[0].(string))
	}
	sort.Strings(out)
	return out
}

func expObjs(xs [][]interface{}) []string {
	var out []string
	for _, x := range xs {
		out = append(out, key(x[0].(string), int(x[1].(float64))))
	}
	sort.Strings(out)
	return out
}

func eqStr(a, b []string) bool {
	if len(a) == 0 && len(b) == 0 {
		return true
	}
	return reflect.DeepEqual(a, b)
}

func failed(r string) bool {
	return r == "err" || r == "false" || r == "inuse" || r == "notfound"
}

// compareResult checks the call's own result class.
func (r *replayer) compareResult(w *World, path []Action, a *Action, res Result) {
	r.rep.Comparisons++
	sameClass := res.R == a.R
	if a.A == "RemoveNode" && a.R == "closeerr" && res.R == "ok" {
		// the model lets the Close of this id fail; the object registered last may be one that has no Close at all
		if o, ok := w.objs[key(a.N, w.cur[a.N])]; ok && !o.canClose {
			sameClass = true
		}
	}
	if !sameClass {
		props := []string{}
		switch a.A {
		case "RegisterPipeline":
			props = append(props, "C05")
			over := a.Pol == "invalid"
			for _, q := range path {
				if q.A == "RegisterPipeline" && q.T == a.T && q.P == a.P {
					over = true
				}
			}
			if over {
				props = append(props, "C07")
			}
		case "RegisterNode":
			props = append(props, "C07")
		case "RemoveNode", "RPAN":
			props = append(props, "C06")
			if failed(a.R) != failed(res.R) {
				props = append(props, "C05")
			}
		case "SetThreshold":
			props = append(props, "C02")
		case "RemovePipeline":
			props = append(props, "C06")
		}
		// RemovePipeline on a type without graph entry: the statement leaves the result open.
		drift := a.A == "RemovePipeline"
		r.mismatch(Mismatch{Props: props, What: "result of " + a.A, Path: path, Action: a, Expected: a.R, Observed: res.R, Drift: drift})
	}
	if a.A == "RPAN" && a.R == "true" && res.R == "true" {
		exp := []string{}
		for _, k := range expObjs(a.Closed) {
			if o, ok := w.objs[k]; ok && o.canClose {
				exp = append(exp, k)
			}
		}
		r.rep.Comparisons++
		if !eqStr(exp, res.Closed) {
			r.mismatch(Mismatch{Props: []string{"C06"}, What: "objects closed by RemovePipelineAndNodes", Path: path, Action: a, Expected: exp, Observed: res.Closed})
		}
		closeErrExpected := false
		for _, k := range exp {
			if w.objs[k].n.CloseFails {
				closeErrExpected = true
			}
		}
		if closeErrExpected != res.Cerr {
			r.mismatch(Mismatch{Props: []string{"C06"}, What: "RemovePipelineAndNodes error iff a Close failed", Path: path, Action: a, Expected: closeErrExpected, Observed: res.Cerr})
		}
	}
	if a.A == "RemoveNode" && (a.R == "ok" || a.R == "closeerr") {
		k := key(a.N, w.cur[a.N])
		if o, ok := w.objs[k]; ok && o.canClose {
			r.rep.Comparisons++
			if !eqStr([]string{k}, res.Closed) {
				r.mismatch(Mismatch{Props: []string{"C06"}, What: "objects closed by RemoveNode", Path: path, Action: a, Expected: []string{k}, Observed: res.Closed})
			}
		}
	} else if a.A == "RemoveNode" && len(res.Closed) > 0 {
		r.mismatch(Mismatch{Props: []string{"C06", "C05"}, What: "refused RemoveNode closed a node", Path: path, Action: a, Expected: []string{}, Observed: res.Closed})
	}
	if (a.A == "RegisterNode" || a.A == "RegisterPipeline" || a.A == "RemovePipeline" || a.A == "SetThreshold") && !failed(a.R) && len(res.Closed) > 0 {
		r.mismatch(Mismatch{Props: []string{"C06", "C07"}, What: a.A + " closed a node (only RemoveNode and RemovePipelineAndNodes close nodes; re-registering an id must not disturb earlier pipelines)", Path: path, Action: a, Expected: []string{}, Observed: res.Closed})
	}
	if failed(a.R) && a.A != "RemoveNode" && len(res.Closed) > 0 {
		r.mismatch(Mismatch{Props: []string{"C05", "C06"}, What: "failed call closed a node", Path: path, Action: a, Expected: []string{}, Observed: res.Closed})
	}
	// no object is ever closed twice
	for k, o := range w.objs {
		if o.n.Closes.Load() > 1 {
			r.mismatch(Mismatch{Props: []string{"C06"}, What: "node object closed more than once", Path: path, Action: a, Expected: 1, Observed: fmt.Sprintf("%s closed %d times", k, o.n.Closes.Load())})
		}
	}
}

// compareObs checks the projection after the action against the model.
func (r *replayer) compareObs(w *World, path []Action, a *Action, p *Proj, o *Obs, fullReopen bool) {
	over := a.A == "RegisterPipeline" || a.A == "RegisterNode"
	fail := failed(a.R)
	for _, t := range w.cfg.Types {
		r.rep.Comparisons++
		if ed := expDeliv(p, t); !eqStr(ed, o.Deliv[t]) {
			props := []string{"C01"}
			if fail {
				props = append(props, "C05")
			}
			if over {
				props = append(props, "C07")
			}
			if a.A == "RPAN" || a.A == "RemoveNode" {
				props = append(props, "C06")
			}
			r.mismatch(Mismatch{Props: props, What: "pipelines traversed by Send(" + t + ")", Path: path, Action: a, Expected: ed, Observed: o.Deliv[t]})
		}
		r.rep.Comparisons++
		if p.IsAny[t] != o.IsAny[t] {
			r.mismatch(Mismatch{Props: []string{"C05"}, What: "IsAnyPipelineRegistered(" + t + ")", Path: path, Action: a, Expected: p.IsAny[t], Observed: o.IsAny[t]})
		}
		// Status accounting of an uncancelled Send through all-pass pipelines
		es := expSinks(p, t)
		r.rep.Comparisons++
		if !eqStr(es, o.Complete[t]) || !eqStr(es, o.Sinks[t]) || o.Warn[t] != 0 {
			r.mismatch(Mismatch{Props: []string{"C02"}, What: "Status of Send(" + t + ")", Path: path, Action: a,
				Expected: map[string]interface{}{"complete": es, "sinks": es, "warnings": 0},
				Observed: map[string]interface{}{"complete": o.Complete[t], "sinks": o.Sinks[t], "warnings": o.Warn[t]}})
		}
		if p.Graph[t] {
			r.rep.Comparisons++
			if p.SendErr[t] != o.SendErr[t] {
				r.mismatch(Mismatch{Props: []string{"C02"}, What: "Send(" + t + ") error iff threshold shortfall", Path: path, Action: a, Expected: p.SendErr[t], Observed: o.SendErr[t]})
			}
			thr := o.Thr[t]
			if thr[2] != 1 || thr[0] != p.Thr[t]["all"] || thr[1] != p.Thr[t]["sinks"] {
				r.mismatch(Mismatch{Props: []string{"C02"}, What: "thresholds read back for " + t, Path: path, Action: a, Expected: p.Thr[t], Observed: thr})
			}
		} else {
			// no graph entry: the statement leaves Send's result and the getters' boolean open
			thr := o.Thr[t]
			if thr[0] != 0 || thr[1] != 0 {
				r.mismatch(Mismatch{Props: []string{"C02"}, What: "thresholds of a type that was never configured", Path: path, Action: a, Expected: []int{0, 0}, Observed: thr})
			}
			if thr[2] != 0 || !o.SendErr[t] {
				r.mismatch(Mismatch{What: "graph entry bookkeeping for " + t, Path: path, Action: a, Expected: "no entry", Observed: fmt.Sprint(thr, o.SendErr[t]), Drift: true})
			}
		}
	}
	for _, an := range o.Anomaly {
		r.mismatch(Mismatch{Props: []string{"C01"}, What: "traversal anomaly: " + an, Path: path, Action: a, Expected: "", Observed: an})
	}
	// Reopen reaches every node object of every registered pipeline (at least)
	er := expObjs(p.Reopen)
	r.rep.Comparisons++
	missing := []string{}
	got := map[string]bool{}
	for _, k := range o.Reopen {
		got[k] = true
	}
	for _, k := range er {
		if !got[k] {
			missing = append(missing, k)
		}
	}
	if !o.ReopenDoneErr {
		got := map[string]bool{}
		for _, k := range o.ReopenDone {
			got[k] = true
		}
		var skipped []string
		for _, k := range er {
			if !got[k] {
				skipped = append(skipped, k)
			}
		}
		if len(skipped) > 0 {
			r.mismatch(Mismatch{Props: []string{"C20"}, What: "Broker.Reopen with a context that is already done returned nil although it skipped nodes of registered pipelines", Path: path, Action: a, Expected: er, Observed: map[string]interface{}{"reopened": o.ReopenDone, "err": false}})
		}
	}
	if len(missing) > 0 || o.ReopenErr {
		r.mismatch(Mismatch{Props: []string{"C20"}, What: "Broker.Reopen coverage", Path: path, Action: a, Expected: er, Observed: map[string]interface{}{"reopened": o.Reopen, "err": o.ReopenErr}})
	}
	if fullReopen {
		for _, k := range er {
			r.rep.Comparisons++
			gotErr, carries := w.ReopenFailing(k)
			if !gotErr || !carries {
				r.mismatch(Mismatch{Props: []string{"C20"}, What: "Broker.Reopen with failing node " + k, Path: path, Action: a, Expected: "error carrying the node's failure", Observed: fmt.Sprintf("err=%v carries=%v", gotErr, carries)})
			}
		}
	}
}

// probeInUse replays prefix on a fresh broker and tries RemoveNode(n).
func (r *replayer) probeInUse(prefix []Action, a *Action, p *Proj, n string) {
	w := NewWorld(r.cfg)
	for i := range prefix {
		w.Apply(&prefix[i])
		r.rep.Calls++
	}
	probe := &Action{A: "RemoveNode", N: n}
	res := w.Apply(probe)
	r.rep.Calls++
	r.rep.Comparisons++
	want := p.InUse[n]
	got := res.R
	if got == "ok" || got == "closeerr" {
		got = "free"
	}
	if want != got {
		props := []string{"C06"}
		if failed(a.R) {
			props = append(props, "C05")
		}
		r.mismatch(Mismatch{Props: props, What: "in-use status of node " + n + " (RemoveNode probe)", Path: prefix, Action: probe, Expected: want, Observed: got})
		return
	}
	if want == "free" {
		k := key(n, w.cur[n])
		if o := w.objs[k]; o != nil && o.canClose && o.n.Closes.Load() != 1 {
			r.mismatch(Mismatch{Props: []string{"C06"}, What: "RemoveNode closes the node exactly once", Path: prefix, Action: probe, Expected: 1, Observed: o.n.Closes.Load()})
		}
		// it is gone afterwards
		res2 := w.Apply(probe)
		if res2.R != "notfound" {
			r.mismatch(Mismatch{Props: []string{"C06"}, What: "removed node is unregistered", Path: prefix, Action: probe, Expected: "notfound", Observed: res2.R})
		}
	} else if want == "inuse" {
		// refusal has no side effect: deliveries unchanged
		o := w.Observe()
		for _, t := range r.cfg.Types {
			if ed := expDeliv(p, t); !eqStr(ed, o.Deliv[t]) {
				r.mismatch(Mismatch{Props: []string{"C06", "C05"}, What: "refused RemoveNode changed deliveries", Path: prefix, Action: probe, Expected: ed, Observed: o.Deliv[t]})
			}
		}
	}
}

func nontrivial(a *Action) bool { return !failed(a.R) }

func (r *replayer) runEdge(e *Edge) {
	w := NewWorld(r.cfg)
	for i := range e.P {
		w.Apply(&e.P[i])
		r.rep.Calls++
	}
	var before Obs
	if failed(e.A.R) {
		before = w.Observe()
	}
	res := w.Apply(&e.A)
	r.rep.Calls++
	r.compareResult(w, e.P, &e.A, res)
	o := w.Observe()
	r.compareObs(w, e.P, &e.A, &e.Proj, &o, true)
	if failed(e.A.R) {
		// the implementation's own before/after comparison (independent of the model)
		r.rep.Comparisons++
		if !reflect.DeepEqual(before.Deliv, o.Deliv) || !reflect.DeepEqual(before.IsAny, o.IsAny) {
			r.mismatch(Mismatch{Props: []string{"C05"}, What: "failed call changed what Send delivers", Path: e.P, Action: &e.A, Expected: before.Deliv, Observed: o.Deliv})
		}
	}
	full := append(append([]Action{}, e.P...), e.A)
	for _, n := range r.cfg.NIDs {
		r.probeInUse(full, &e.A, &e.Proj, n)
	}
	r.rep.ActionCounts[e.A.A+":"+e.A.R]++
	if nontrivial(&e.A) {
		b, _ := json.Marshal(full)
		if !r.seenNT[string(b)] {
			r.seenNT[string(b)] = true
			r.rep.Nontrivial++
		}
	}
}

func (r *replayer) runWalk(steps []Step) {
	w := NewWorld(r.cfg)
	var prefix []Action
	for i := range steps {
		s := &steps[i]
		var before Obs
		if failed(s.A.R) {
			before = w.Observe()
		}
		res := w.Apply(&s.A)
		r.rep.Calls++
		r.compareResult(w, prefix, &s.A, res)
		o := w.Observe()
		r.compareObs(w, prefix, &s.A, &s.Proj, &o, i%4 == 3)
		if failed(s.A.R) {
			if !reflect.DeepEqual(before.Deliv, o.Deliv) || !reflect.DeepEqual(before.IsAny, o.IsAny) {
				r.mismatch(Mismatch{Props: []string{"C05"}, What: "failed call changed what Send delivers", Path: prefix, Action: &s.A, Expected: before.Deliv, Observed: o.Deliv})
			}
		}
		prefix = append(prefix, s.A)
		// in-use probes need a copy of the history: do them for one node per step, all nodes every 8th step
		full := append([]Action{}, prefix...)
		if i%8 == 7 || i == len(steps)-1 {
			for _, n := range r.cfg.NIDs {
				r.probeInUse(full, &s.A, &s.Proj, n)
			}
		} else {
			r.probeInUse(full, &s.A, &s.Proj, r.cfg.NIDs[i%len(r.cfg.NIDs)])
		}
		r.rep.ActionCounts[s.A.A+":"+s.A.R]++
		if nontrivial(&s.A) {
			r.rep.Nontrivial++
		}
	}
}

// decodeLine extracts the JSON value from a TLC PrintT(ToJson(..)) output line.
func decodeLine(line string, v interface{}) error {
	var inner string
	if err := json.Unmarshal([]byte(line), &inner); err != nil {
		return err
	}
	return json.Unmarshal([]byte(inner), v)
}

// Run replays the exported graph (edgesFile) and/or walks (walksFile).
func Run(cfg *Config, edgesFile, walksFile string, maxSamples int) (*Report, error) {
	rp := &replayer{cfg: cfg, rep: &Report{ByProp: map[string]int{}, ActionCounts: map[string]int{}}, seenNT: map[string]bool{}}
	read := func(path string, fn func(line string) error) error {
		f, err := os.Open(path)
		if err != nil {
			return err
		}
		defer f.Close()
		sc := bufio.NewScanner(f)
		sc.Buffer(make([]byte, 1<<20), 1<<28)
		for sc.Scan() {
			line := sc.Text()
			if !strings.HasPrefix(line, "\"") {
				continue
			}
			if err := fn(line); err != nil {
				return err
			}
		}
		return sc.Err()
	}
	if edgesFile != "" {
		const workers = 12
		ch := make(chan *Edge, 256)
		done := make(chan *replayer, workers)
		for w := 0; w < workers; w++ {
			go func() {
				r := &replayer{cfg: cfg, rep: &Report{ByProp: map[string]int{}, ActionCounts: map[string]int{}}, seenNT: map[string]bool{}}
				for e := range ch {
					e := e
					r.guarded(e.P, &e.A, func() { r.runEdge(e) })
				}
				done <- r
			}()
		}
		err := read(edgesFile, func(line string) error {
			e := &Edge{}
			if err := decodeLine(line, e); err != nil {
				return fmt.Errorf("bad edge line: %w", err)
			}
			rp.rep.Edges++
			if len(rp.rep.Samples) < maxSamples && (rp.rep.Edges%997 == 1) {
				rp.rep.Samples = append(rp.rep.Samples, *e)
			}
			ch <- e
			return nil
		})
		close(ch)
		for w := 0; w < workers; w++ {
			r := <-done
			rp.rep.Calls += r.rep.Calls
			rp.rep.Comparisons += r.rep.Comparisons
			rp.rep.Nontrivial += r.rep.Nontrivial
			rp.rep.MismatchN += r.rep.MismatchN
			rp.rep.DriftN += r.rep.DriftN
			rp.rep.Hung += r.rep.Hung
			for k, v := range r.rep.ByProp {
				rp.rep.ByProp[k] += v
			}
			for k, v := range r.rep.ActionCounts {
				rp.rep.ActionCounts[k] += v
			}
			for _, m := range r.rep.Mismatches {
				if len(rp.rep.Mismatches) < 60 {
					rp.rep.Mismatches = append(rp.rep.Mismatches, m)
				}
			}
		}
		if err != nil {
			return nil, err
		}
	}
	if walksFile != "" {
		err := read(walksFile, func(line string) error {
			var steps []Step
			if err := decodeLine(line, &steps); err != nil {
				return fmt.Errorf("bad walk line: %w", err)
			}
			rp.guarded(nil, nil, func() { rp.runWalk(steps) })
			rp.rep.Walks++
			if len(rp.rep.Samples) < maxSamples && rp.rep.Walks%50 == 1 {
				var acts []Action
				for _, s := range steps {
					acts = append(acts, s.A)
				}
				rp.rep.Samples = append(rp.rep.Samples, map[string]interface{}{"walk": acts})
			}
			return nil
		})
		if err != nil {
			return nil, err
		}
	}
	for _, m := range ReopenOverlap() {
		rp.mismatch(m)
	}
	return rp.rep, nil
}
