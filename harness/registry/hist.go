package registry

import (
	"context"
	"errors"
	"fmt"
	"math/rand"
	"runtime"
	"sync"
	"sync/atomic"
	"time"

	"github.com/hashicorp/eventlogger"

	"verif/harness/internal/hn"
)

// Concurrent histories of the registry API for validation by TLC (spec/registry/RegistryTrace.tla).

// HRec is one history event.
type HRec map[string]interface{}

// RHistory is one recorded history.
type RHistory struct {
	ID int    `json:"id"`
	G  int    `json:"g"`
	H  []HRec `json:"h"`
}

var histKinds = map[string]eventlogger.NodeType{"a": eventlogger.NodeTypeFilter, "g": eventlogger.NodeTypeFilter, "m": eventlogger.NodeTypeFormatter, "s": eventlogger.NodeTypeSink}
var histLists = [][]string{{"m", "s"}, {"a", "m", "s"}, {"g", "m", "s"}, {"a", "g", "m", "s"}, {"a", "s"}, {"s", "m"}}

// lazy is a node whose Type() and Close() take a while in some histories: registrations and removals then spend time
// inside the Broker, which widens the windows in which a non-atomic implementation shows.
type lazy struct {
	hn.Node
	typeDelay, closeDelay time.Duration
	gate                  *typeGate
}

type typeGate struct {
	armed   bool
	entered chan struct{}
	release chan struct{}
}

func (n *lazy) Type() eventlogger.NodeType {
	if g := n.gate; g != nil && g.armed {
		select {
		case g.entered <- struct{}{}:
		default:
		}
		select {
		case <-g.release:
		case <-time.After(2 * time.Millisecond):
		}
	} else if n.typeDelay > 0 {
		time.Sleep(n.typeDelay)
	}
	return n.Kind
}
func (n *lazy) Close(ctx context.Context) error {
	if n.closeDelay > 0 {
		time.Sleep(n.closeDelay)
	}
	return nil
}

func polOpt(pol string, node bool) []eventlogger.Option {
	var p eventlogger.RegistrationPolicy
	switch pol {
	case "default":
		return nil
	case "allow":
		p = eventlogger.AllowOverwrite
	case "deny":
		p = eventlogger.DenyOverwrite
	default:
		p = invalidPolicy()
	}
	if node {
		return []eventlogger.Option{eventlogger.WithNodeRegistrationPolicy(p)}
	}
	return []eventlogger.Option{eventlogger.WithPipelineRegistrationPolicy(p)}
}

type recorder struct {
	b   *eventlogger.Broker
	mu  sync.Mutex
	h   []HRec
	opn int
}

func (r *recorder) inv(rec HRec) int {
	r.mu.Lock()
	defer r.mu.Unlock()
	r.opn++
	rec["k"], rec["op"] = "inv", r.opn
	r.h = append(r.h, rec)
	return r.opn
}
func (r *recorder) resp(op int, res string) {
	r.mu.Lock()
	r.h = append(r.h, HRec{"k": "resp", "op": op, "r": res})
	r.mu.Unlock()
}

func errClass(err error) string {
	if err == nil {
		return "ok"
	}
	return "err"
}

func (r *recorder) regnode(n, pol string, node eventlogger.Node) {
	op := r.inv(HRec{"kind": "regnode", "n": n, "pol": pol})
	r.resp(op, errClass(r.b.RegisterNode(eventlogger.NodeID(n), node, polOpt(pol, true)...)))
}
func (r *recorder) regpipe(p string, ids []string, pol string) {
	op := r.inv(HRec{"kind": "regpipe", "t": "t", "p": p, "ids": ids, "pol": pol})
	nids := make([]eventlogger.NodeID, len(ids))
	for i, s := range ids {
		nids[i] = eventlogger.NodeID(s)
	}
	r.resp(op, errClass(r.b.RegisterPipeline(eventlogger.Pipeline{PipelineID: eventlogger.PipelineID(p), EventType: "t", NodeIDs: nids}, polOpt(pol, false)...)))
}
func (r *recorder) rmpipe(p string) {
	op := r.inv(HRec{"kind": "rmpipe", "t": "t", "p": p})
	r.resp(op, errClass(r.b.RemovePipeline("t", eventlogger.PipelineID(p))))
}
func (r *recorder) rpan(p string) {
	op := r.inv(HRec{"kind": "rpan", "t": "t", "p": p})
	ok, _ := r.b.RemovePipelineAndNodes(context.Background(), "t", eventlogger.PipelineID(p))
	r.resp(op, map[bool]string{true: "true", false: "false"}[ok])
}
func (r *recorder) rmnode(n string) {
	op := r.inv(HRec{"kind": "rmnode", "n": n})
	err := r.b.RemoveNode(context.Background(), eventlogger.NodeID(n))
	res := "inuse"
	switch {
	case err == nil:
		res = "ok"
	case errors.Is(err, eventlogger.ErrNodeNotFound):
		res = "notfound"
	}
	r.resp(op, res)
}
func (r *recorder) setthr(which string, v int) {
	op := r.inv(HRec{"kind": "setthr", "t": "t", "which": which, "v": v})
	var err error
	if which == "all" {
		err = r.b.SetSuccessThreshold("t", v)
	} else {
		err = r.b.SetSuccessThresholdSinks("t", v)
	}
	r.resp(op, errClass(err))
}
func (r *recorder) isany() {
	op := r.inv(HRec{"kind": "isany", "t": "t"})
	r.resp(op, map[bool]string{true: "t", false: "f"}[r.b.IsAnyPipelineRegistered("t")])
}

func (r *recorder) probes() {
	r.isany()
	for _, n := range []string{"a", "g", "m", "s"} {
		r.rmnode(n)
	}
	r.isany()
}

// RunRegistryHistory: id%4 == 0 and 1 are directed races (a formatter whose Type() holds RegisterPipeline inside the
// Broker while a conflicting call runs); the others are random.
func RunRegistryHistory(id int, seed int64) *RHistory {
	rng := rand.New(rand.NewSource(seed))
	b, _ := hn.NewBroker()
	r := &recorder{b: b}
	mk := func(n string, rr *rand.Rand, slow bool) *lazy {
		l := &lazy{Node: hn.Node{ID: n, Kind: histKinds[n], Beh: hn.Pass}}
		if slow {
			l.typeDelay = time.Duration(rr.Intn(120)) * time.Microsecond
			l.closeDelay = time.Duration(rr.Intn(200)) * time.Microsecond
		}
		return l
	}
	r.setthr("all", 0) // the type owns a graph entry from the start
	switch id % 4 {
	case 0, 1:
		gate := &typeGate{entered: make(chan struct{}, 4), release: make(chan struct{})}
		m := mk("m", rng, false)
		m.gate = gate
		r.regnode("a", "default", mk("a", rng, false))
		r.regnode("m", "default", m)
		r.regnode("s", "default", mk("s", rng, false))
		r.regnode("g", "default", mk("g", rng, false))
		if id%4 == 1 {
			r.regpipe("q", []string{"g", "m", "s"}, "default")
		}
		gate.armed = true
		var wg sync.WaitGroup
		wg.Add(2)
		go func() {
			defer wg.Done()
			r.regpipe("p", []string{"a", "m", "s"}, "default")
		}()
		go func() {
			defer wg.Done()
			select {
			case <-gate.entered:
			case <-time.After(20 * time.Millisecond):
			}
			switch (id / 4) % 4 {
			case 0:
				r.rmnode("a")
			case 1:
				r.regpipe("p", []string{"m", "s"}, "deny")
			case 2:
				r.rpan("p")
			default:
				r.regnode("a", "deny", mk("a", rng, false))
				r.rmnode("a")
			}
			close(gate.release)
		}()
		wg.Wait()
		gate.armed = false
		r.probes()
		return &RHistory{ID: id, G: 2, H: r.h}
	}
	G := 2 + rng.Intn(3)
	slow := id%4 == 2
	if id%4 == 3 {
		// prelude: two pipelines that share their formatter and sink, so that calls meet nodes used twice
		for _, n := range []string{"a", "m", "s", "g"} {
			r.regnode(n, "default", mk(n, rng, false))
		}
		r.regpipe("p", []string{"a", "m", "s"}, "default")
		r.regpipe("q", []string{"g", "m", "s"}, "default")
	}
	var wg sync.WaitGroup
	for g := 0; g < G; g++ {
		wg.Add(1)
		go func(g int) {
			defer wg.Done()
			rr := rand.New(rand.NewSource(seed*613 + int64(g)))
			ids := []string{"a", "m", "s", "g"}
			pols := []string{"default", "default", "allow", "deny", "invalid"}
			n := 5 + rr.Intn(4)
			for i := 0; i < n; i++ {
				switch x := rr.Intn(100); {
				case x < 30:
					nid := ids[rr.Intn(4)]
					r.regnode(nid, pols[rr.Intn(5)], mk(nid, rr, slow))
				case x < 55:
					r.regpipe([]string{"p", "q"}[rr.Intn(2)], histLists[rr.Intn(len(histLists))], pols[rr.Intn(5)])
				case x < 65:
					r.rmpipe([]string{"p", "q"}[rr.Intn(2)])
				case x < 78:
					r.rpan([]string{"p", "q"}[rr.Intn(2)])
				case x < 90:
					r.rmnode(ids[rr.Intn(4)])
				case x < 95:
					r.setthr([]string{"all", "sinks"}[rr.Intn(2)], rr.Intn(3)-1)
				default:
					r.isany()
				}
				if rr.Intn(3) == 0 {
					runtime.Gosched()
				}
			}
		}(g)
	}
	wg.Wait()
	r.probes()
	return &RHistory{ID: id, G: G, H: r.h}
}

var _ = fmt.Sprint

// slowReopen is a node whose first Reopen waits until it is released.
type slowReopen struct {
	hn.Node
	calls   atomic.Int64
	fail    atomic.Bool
	entered chan struct{}
	release chan struct{}
	block   bool
}

func (n *slowReopen) Reopen() error {
	c := n.calls.Add(1)
	if n.block && c == 1 {
		n.entered <- struct{}{}
		<-n.release
	}
	if n.fail.Load() {
		return hn.ErrReopen
	}
	return nil
}

// ReopenOverlap: a Reopen that starts while another one is still walking the pipelines reaches every node as well
// (each call of Broker.Reopen is its own walk), and reports a failing node.
func ReopenOverlap() []Mismatch {
	var mms []Mismatch
	for _, failing := range []bool{false, true} {
		b, _ := hn.NewBroker()
		f := &slowReopen{Node: hn.Node{ID: "f", Kind: eventlogger.NodeTypeFilter, Beh: hn.Pass}}
		m := &slowReopen{Node: hn.Node{ID: "m", Kind: eventlogger.NodeTypeFormatter, Beh: hn.Pass}}
		s := &slowReopen{Node: hn.Node{ID: "s", Kind: eventlogger.NodeTypeSink, Beh: hn.Pass}, block: true, entered: make(chan struct{}, 1), release: make(chan struct{})}
		b.RegisterNode("f", f)
		b.RegisterNode("m", m)
		b.RegisterNode("s", s)
		b.RegisterPipeline(eventlogger.Pipeline{PipelineID: "p", EventType: "t", NodeIDs: []eventlogger.NodeID{"f", "m", "s"}})
		first := make(chan error, 1)
		go func() { first <- b.Reopen(context.Background()) }()
		select {
		case <-s.entered:
		case <-time.After(10 * time.Second):
			return append(mms, Mismatch{Props: []string{"C20"}, What: "Broker.Reopen did not reach the sink of the registered pipeline", Expected: "reached", Observed: "not within 10 s"})
		}
		// the first walk is parked in the sink's Reopen; something has changed for the nodes it has passed
		fBefore, sBefore := f.calls.Load(), s.calls.Load()
		f.fail.Store(failing)
		second := make(chan error, 1)
		go func() { second <- b.Reopen(context.Background()) }()
		var err2 error
		select {
		case err2 = <-second:
		case <-time.After(10 * time.Second):
			close(s.release)
			mms = append(mms, Mismatch{Props: []string{"C20", "C12"}, What: "a second Broker.Reopen did not return while the first one was inside a node's Reopen", Expected: "returns", Observed: "blocked"})
			continue
		}
		close(s.release)
		<-first
		vec := fmt.Sprintf("second Reopen while the first is parked in the sink (filter failing: %v)", failing)
		if failing {
			if err2 == nil || !errors.Is(err2, hn.ErrReopen) {
				mms = append(mms, Mismatch{Props: []string{"C20"}, What: vec + ": the filter's Reopen fails for this call, the error must carry it", Expected: "error", Observed: fmt.Sprint(err2)})
			}
			continue
		}
		if err2 != nil || f.calls.Load() <= fBefore || s.calls.Load() <= sBefore {
			mms = append(mms, Mismatch{Props: []string{"C20"}, What: vec + ": nil means every node was reopened by this call", Expected: "filter and sink reopened again, nil",
				Observed: fmt.Sprintf("err=%v filter reopens %d->%d sink reopens %d->%d", err2, fBefore, f.calls.Load(), sBefore, s.calls.Load())})
		}
	}
	return mms
}
