package registry

import (
	"bufio"
	"context"
	"fmt"
	"os"
	"reflect"
	"strings"

	"github.com/hashicorp/eventlogger"

	"verif/harness/internal/hn"
)

// Vector is one state of the TLA+ module Validate.
type Vector struct {
	V struct {
		Kinds []string `json:"kinds"`
		Form  string   `json:"form"`
		Pos   int      `json:"pos"`
		Exist string   `json:"exist"`
		Pol   string   `json:"pol"`
	} `json:"v"`
	Accept bool `json:"accept"`
}

// ValidateReport summarises the replay of all Validate vectors.
type ValidateReport struct {
	Vectors    int           `json:"vectors"`
	Accepted   int           `json:"accepted"`
	MismatchN  int           `json:"mismatch_count"`
	Mismatches []Mismatch    `json:"mismatches"`
	Samples    []interface{} `json:"samples"`
}

type vworld struct {
	b    *eventlogger.Broker
	log  *hn.Log
	objs []*hn.Node
}

func (w *vworld) observe(t string, ids []string) (deliv []string, isany bool, inuse map[string]string) {
	w.log.Take()
	w.b.Send(context.Background(), eventlogger.EventType(t), "x")
	trs, _ := Traversals(w.log.Take())
	return trs, w.b.IsAnyPipelineRegistered(eventlogger.EventType(t)), nil
}

// RunValidate replays every vector on a fresh Broker.
func RunValidate(file string) (*ValidateReport, error) {
	rep := &ValidateReport{}
	f, err := os.Open(file)
	if err != nil {
		return nil, err
	}
	defer f.Close()
	sc := bufio.NewScanner(f)
	sc.Buffer(make([]byte, 1<<20), 1<<26)
	for sc.Scan() {
		line := sc.Text()
		if !strings.HasPrefix(line, "\"") {
			continue
		}
		var v Vector
		if err := decodeLine(line, &v); err != nil {
			return nil, err
		}
		rep.Vectors++
		if m := runVector(&v); m != nil {
			rep.MismatchN++
			if len(rep.Mismatches) < 40 {
				rep.Mismatches = append(rep.Mismatches, *m)
			}
		}
		if v.Accept {
			rep.Accepted++
		}
		if len(rep.Samples) < 6 && rep.Vectors%4099 == 7 {
			rep.Samples = append(rep.Samples, v)
		}
	}
	return rep, sc.Err()
}

func runVector(v *Vector) *Mismatch {
	ctx := context.Background()
	b, _ := eventlogger.NewBroker()
	lg := &hn.Log{}
	t, pid := "t1", "p1"
	// context: an existing pipeline under the same id and type
	if v.V.Exist != "none" {
		b.RegisterNode("xf", &hn.Node{ID: "xf", Ver: 1, Kind: eventlogger.NodeTypeFormatter, L: lg})
		b.RegisterNode("xs", &hn.Node{ID: "xs", Ver: 1, Kind: eventlogger.NodeTypeSink, L: lg})
		if err := b.RegisterPipeline(eventlogger.Pipeline{PipelineID: eventlogger.PipelineID(pid), EventType: eventlogger.EventType(t), NodeIDs: []eventlogger.NodeID{"xf", "xs"}}, pipeOpt(v.V.Exist)...); err != nil {
			return &Mismatch{Props: []string{"C05"}, What: "setup pipeline rejected", Expected: "ok", Observed: err.Error()}
		}
	}
	ids := make([]eventlogger.NodeID, len(v.V.Kinds))
	for i, k := range v.V.Kinds {
		id := fmt.Sprintf("n%d", i+1)
		ids[i] = eventlogger.NodeID(id)
		if v.V.Form == "unreg" && v.V.Pos == i+1 {
			continue
		}
		if v.V.Form == "emptynode" && v.V.Pos == i+1 {
			ids[i] = ""
			continue
		}
		if err := b.RegisterNode(eventlogger.NodeID(id), &hn.Node{ID: id, Ver: 1, Kind: hn.KindOf(k), L: lg}); err != nil {
			return &Mismatch{Props: []string{"C05"}, What: "setup node rejected", Expected: "ok", Observed: err.Error()}
		}
	}
	def := eventlogger.Pipeline{PipelineID: eventlogger.PipelineID(pid), EventType: eventlogger.EventType(t), NodeIDs: ids}
	if v.V.Form == "emptypid" {
		def.PipelineID = ""
	}
	if v.V.Form == "emptytype" {
		def.EventType = ""
	}
	obs := func() (d []string, any bool) {
		lg.Take()
		b.Send(ctx, eventlogger.EventType(t), "x")
		d, _ = Traversals(lg.Take())
		return d, b.IsAnyPipelineRegistered(eventlogger.EventType(t))
	}
	d0, any0 := obs()
	err := b.RegisterPipeline(def, pipeOpt(v.V.Pol)...)
	got := err == nil
	if got != v.Accept {
		return &Mismatch{Props: []string{"C05"}, What: "RegisterPipeline acceptance", Expected: v.Accept, Observed: map[string]interface{}{"accepted": got, "vector": v.V}}
	}
	d1, any1 := obs()
	if !got {
		if !reflect.DeepEqual(d0, d1) || any0 != any1 {
			return &Mismatch{Props: []string{"C05"}, What: "failed RegisterPipeline changed deliveries", Expected: d0, Observed: map[string]interface{}{"deliv": d1, "vector": v.V}}
		}
		// registered nodes keep their (free) status: each can be removed exactly once
		for i := range v.V.Kinds {
			id := fmt.Sprintf("n%d", i+1)
			skipped := (v.V.Form == "unreg" || v.V.Form == "emptynode") && v.V.Pos == i+1
			err := b.RemoveNode(ctx, eventlogger.NodeID(id))
			if skipped != (err != nil) {
				return &Mismatch{Props: []string{"C05"}, What: "failed RegisterPipeline changed node status of " + id, Expected: !skipped, Observed: map[string]interface{}{"removed": err == nil, "vector": v.V}}
			}
		}
	} else {
		// the new definition is the one that receives events, exactly once
		want := make([]string, 0, len(ids))
		for i := range ids {
			want = append(want, fmt.Sprintf("n%d#1", i+1))
		}
		if len(d1) != 1 || d1[0] != strings.Join(want, ">") {
			// a sink in the middle ends the traversal there: accept a prefix that ends at a sink
			ok := false
			if len(d1) == 1 && strings.HasPrefix(strings.Join(want, ">"), d1[0]) {
				n := strings.Count(d1[0], ">") // index of last traversed node
				ok = v.V.Kinds[n] == "sink"
			}
			if !ok {
				return &Mismatch{Props: []string{"C05", "C01"}, What: "registered pipeline is not what receives events", Expected: strings.Join(want, ">"), Observed: map[string]interface{}{"deliv": d1, "vector": v.V}}
			}
		}
		if !any1 {
			return &Mismatch{Props: []string{"C05"}, What: "IsAnyPipelineRegistered false after successful registration", Expected: true, Observed: false}
		}
	}
	return nil
}
