// Package gatedrep replays behaviours of the TLA+ module Gated on a real
// gated.Filter: a harness Gateable payload whose ComposeFrom reports the
// ordinals it was given, a controllable clock and a recording Sender.
package gatedrep

import (
	"bufio"
	"context"
	"encoding/json"
	"errors"
	"fmt"
	"os"
	"reflect"
	"strings"
	"time"

	"github.com/hashicorp/eventlogger"
	"github.com/hashicorp/eventlogger/filters/gated"
)

// ---------------------------------------------------------------- harness payloads

type ctrl struct {
	composes int
	sends    int
	failKind string
	failN    int
	sent     [][]int
	lastComp [][]int
}

var errInjected = errors.New("harness: injected failure")

type gpay struct {
	ID    string
	Flush bool
	Ord   int
	c     *ctrl
}

func (p *gpay) GetID() string    { return p.ID }
func (p *gpay) FlushEvent() bool { return p.Flush }

type comp struct{ Ords []int }

// gcomp is a composite that is itself Gateable (must be refused by the filter).
type gcomp struct {
	comp
	c     *ctrl
	flush bool // a Gateable composite is refused whether or not it calls itself a flush event
}

func (g *gcomp) GetID() string    { return "composite" }
func (g *gcomp) FlushEvent() bool { return g.flush }
func (g *gcomp) ComposeFrom([]*eventlogger.Event) (eventlogger.EventType, interface{}, error) {
	return "composite", nil, nil
}

// ComposeFrom is called by the filter with a receiver it kept from the first gated event.
func (p *gpay) ComposeFrom(events []*eventlogger.Event) (eventlogger.EventType, interface{}, error) {
	c := p.c
	c.composes++
	var ords []int
	for _, e := range events {
		if gp, ok := e.Payload.(*gpay); ok {
			ords = append(ords, gp.Ord)
		} else {
			ords = append(ords, -1)
		}
	}
	c.lastComp = append(c.lastComp, ords)
	if c.failKind == "compose" && c.failN == c.composes {
		return "", nil, errInjected
	}
	if c.failKind == "gateable" && c.failN == c.composes {
		return "composite", &gcomp{comp: comp{Ords: ords}, c: c, flush: len(ords)%2 == 1}, nil
	}
	return "composite", &comp{Ords: ords}, nil
}

type sender struct{ c *ctrl }

func (s *sender) Send(ctx context.Context, t eventlogger.EventType, payload interface{}) (eventlogger.Status, error) {
	c := s.c
	c.sends++
	if c.failKind == "send" && c.failN == c.sends {
		return eventlogger.Status{}, errInjected
	}
	switch p := payload.(type) {
	case *comp:
		c.sent = append(c.sent, p.Ords)
	case *gcomp:
		c.sent = append(c.sent, append([]int{-2}, p.Ords...))
	default:
		c.sent = append(c.sent, []int{-3})
	}
	return eventlogger.Status{}, nil
}

// ---------------------------------------------------------------- model records

type Action struct {
	A     string        `json:"a"`
	ID    string        `json:"id,omitempty"`
	Flush bool          `json:"flush,omitempty"`
	Close bool          `json:"close,omitempty"`
	Fail  []interface{} `json:"fail,omitempty"`
	Ret   []interface{} `json:"ret,omitempty"`
	Sent  [][]int       `json:"sent,omitempty"`
	Probe bool          `json:"-"`
}

type probe struct {
	Ret  []interface{} `json:"ret"`
	Sent [][]int       `json:"sent"`
}

type Proj struct {
	FlushAll probe            `json:"flushall"`
	Flush    map[string]probe `json:"flush"`
	NGroups  int              `json:"ngroups"`
}

type Edge struct {
	P    []Action `json:"p"`
	A    Action   `json:"a"`
	Proj Proj     `json:"proj"`
}
type Step struct {
	A    Action `json:"a"`
	Proj Proj   `json:"proj"`
}

type Config struct {
	IDs       []string `json:"ids"`
	E         int      `json:"e"`
	BrokerSet bool     `json:"broker_set"`
}

type Mismatch struct {
	Props    []string    `json:"props"`
	What     string      `json:"what"`
	Path     []Action    `json:"path"`
	Action   *Action     `json:"action,omitempty"`
	Expected interface{} `json:"expected"`
	Observed interface{} `json:"observed"`
}

type Report struct {
	Edges        int            `json:"edges"`
	Walks        int            `json:"walks"`
	Calls        int            `json:"calls"`
	Comparisons  int            `json:"comparisons"`
	Nontrivial   int            `json:"distinct_nontrivial"`
	MismatchN    int            `json:"mismatch_count"`
	ByProp       map[string]int `json:"by_prop"`
	Mismatches   []Mismatch     `json:"mismatches"`
	Samples      []interface{}  `json:"samples"`
	ActionCounts map[string]int `json:"action_counts"`
	ConcRuns     int            `json:"conc_runs"`
}

// ---------------------------------------------------------------- world

type world struct {
	napply int
	cfg    *Config
	f      *gated.Filter
	c      *ctrl
	clock  int
	ord    int
}

var t0 = time.Date(2021, 1, 1, 0, 0, 0, 0, time.UTC)

// stamp gives events creation times that do not follow their arrival order (later events look older, some share a
// time): the gate keeps arrival order, whatever the events say about themselves
func stamp(ord int) time.Time {
	switch ord % 3 {
	case 0:
		return t0.Add(-time.Duration(ord) * time.Minute)
	case 1:
		return t0
	}
	return t0.Add(time.Duration(100-ord) * time.Second)
}

func newWorld(cfg *Config) *world {
	w := &world{cfg: cfg, c: &ctrl{}}
	w.f = &gated.Filter{Expiration: time.Duration(cfg.E) * time.Second, NowFunc: func() time.Time { return t0.Add(time.Duration(w.clock) * time.Second) }}
	if cfg.BrokerSet {
		w.f.Broker = &sender{c: w.c}
	}
	return w
}

type outcome struct {
	Ret  []interface{}
	Sent [][]int
}

func failOf(a *Action) (string, int) {
	if len(a.Fail) == 2 {
		k, _ := a.Fail[0].(string)
		n, _ := a.Fail[1].(float64)
		return k, int(n)
	}
	return "none", 0
}

// concrete spellings of the model's abstract ids: ids are opaque strings to the filter, including padded ones
// (x and y differ only in the white space around them: they are two ids all the same)
var idSpelling = map[string]string{"x": " x", "y": "x\n", "z": "Z-\u00fc ", "": ""}

func (w *world) apply(a *Action) outcome {
	ctx := context.Background()
	// every third call comes from a caller whose context is done already: the filter's bookkeeping does not depend on it
	// (what the Broker makes of such a context is the Broker's answer, and the recording Sender has none)
	if w.napply++; w.napply%3 == 2 {
		cc, cancel := context.WithCancel(ctx)
		cancel()
		ctx = cc
	}
	c := w.c
	c.composes, c.sends, c.sent, c.lastComp = 0, 0, nil, nil
	c.failKind, c.failN = failOf(a)
	defer func() { c.failKind = "none" }()
	switch a.A {
	case "adv":
		w.clock++
		return outcome{}
	case "plain":
		w.ord++
		e := &eventlogger.Event{Type: "t", Payload: &struct{ N int }{w.ord}, Formatted: map[string][]byte{}}
		out, err := w.f.Process(ctx, e)
		switch {
		case err != nil:
			return outcome{Ret: []interface{}{"err"}, Sent: c.sent}
		case out == e:
			return outcome{Ret: []interface{}{"same"}, Sent: c.sent}
		case out == nil:
			return outcome{Ret: []interface{}{"nil"}, Sent: c.sent}
		}
		return outcome{Ret: []interface{}{"other"}, Sent: c.sent}
	case "noid", "ev":
		w.ord++
		ord := w.ord
		if a.Probe {
			ord = 99
		}
		id, ok := idSpelling[a.ID]
		if !ok {
			id = a.ID
		}
		if a.A == "noid" {
			id = ""
		}
		e := &eventlogger.Event{Type: "t", CreatedAt: stamp(ord), Payload: &gpay{ID: id, Flush: a.Flush, Ord: ord, c: c}, Formatted: map[string][]byte{}}
		out, err := w.f.Process(ctx, e)
		return classify(out, err, c)
	case "flushall":
		var err error
		if a.Close {
			err = w.f.Close(ctx)
		} else {
			err = w.f.FlushAll(ctx)
		}
		return classify(nil, err, c)
	}
	panic("unknown action " + a.A)
}

func classify(out *eventlogger.Event, err error, c *ctrl) outcome {
	switch {
	case err != nil:
		return outcome{Ret: []interface{}{"err"}, Sent: c.sent}
	case out == nil:
		return outcome{Ret: []interface{}{"nil"}, Sent: c.sent}
	}
	switch p := out.Payload.(type) {
	case *comp:
		return outcome{Ret: []interface{}{"comp", toIface(p.Ords)}, Sent: c.sent}
	case *gcomp:
		return outcome{Ret: []interface{}{"comp", toIface(p.Ords)}, Sent: c.sent}
	}
	return outcome{Ret: []interface{}{"other"}, Sent: c.sent}
}

func toIface(xs []int) []interface{} {
	out := make([]interface{}, len(xs))
	for i, x := range xs {
		out[i] = float64(x)
	}
	return out
}

func eqRet(a, b []interface{}) bool {
	if len(a) == 0 && len(b) == 0 {
		return true
	}
	return reflect.DeepEqual(normRet(a), normRet(b))
}

func normRet(a []interface{}) []interface{} {
	if len(a) == 2 {
		if l, ok := a[1].([]interface{}); ok && len(l) == 0 {
			return []interface{}{a[0], []interface{}{}}
		}
	}
	return a
}

func eqSent(a, b [][]int) bool {
	if len(a) == 0 && len(b) == 0 {
		return true
	}
	return reflect.DeepEqual(a, b)
}

// ---------------------------------------------------------------- replay

type replayer struct {
	cfg  *Config
	rep  *Report
	seen map[string]bool
}

func (r *replayer) mm(m Mismatch) {
	r.rep.MismatchN++
	for _, p := range m.Props {
		r.rep.ByProp[p]++
	}
	if len(r.rep.Mismatches) < 60 {
		r.rep.Mismatches = append(r.rep.Mismatches, m)
	}
}

// props decides which property a difference in an action's outcome belongs to.
func propsFor(a *Action, exp, got outcome) []string {
	switch a.A {
	case "plain", "noid":
		return []string{"C11"}
	case "flushall":
		return []string{"C17", "C11"}
	}
	// ev: the composites sent at expiry are C17's business as well as C11's
	ps := []string{"C11"}
	if !eqSent(exp.Sent, got.Sent) {
		ps = append(ps, "C17")
	}
	return ps
}

func (r *replayer) compare(path []Action, a *Action, got outcome) {
	if a.A == "adv" {
		return
	}
	r.rep.Comparisons++
	exp := outcome{Ret: a.Ret, Sent: a.Sent}
	if !eqRet(exp.Ret, got.Ret) || !eqSent(exp.Sent, got.Sent) {
		r.mm(Mismatch{Props: propsFor(a, exp, got), What: "outcome of " + a.A, Path: path, Action: a,
			Expected: map[string]interface{}{"ret": exp.Ret, "sent": exp.Sent}, Observed: map[string]interface{}{"ret": got.Ret, "sent": got.Sent}})
	}
}

func (r *replayer) replayTo(path []Action) *world {
	w := newWorld(r.cfg)
	for i := range path {
		w.apply(&path[i])
		r.rep.Calls++
	}
	return w
}

// probes run on copies of the history: FlushAll shows everything still gated (C17: nothing lingers,
// C11: nothing lost), a flush event per id shows that id's group.
func (r *replayer) probes(full []Action, a *Action, p *Proj) {
	w := r.replayTo(full)
	got := w.apply(&Action{A: "flushall"})
	r.rep.Calls++
	r.rep.Comparisons++
	if !eqRet(p.FlushAll.Ret, got.Ret) || !eqSent(p.FlushAll.Sent, got.Sent) {
		props := []string{"C11"}
		if a.A == "flushall" || a.A == "ev" {
			props = append(props, "C17")
		}
		r.mm(Mismatch{Props: props, What: "what is still gated (FlushAll probe)", Path: full,
			Expected: map[string]interface{}{"ret": p.FlushAll.Ret, "sent": p.FlushAll.Sent}, Observed: map[string]interface{}{"ret": got.Ret, "sent": got.Sent}})
	}
	for _, id := range r.cfg.IDs {
		w := r.replayTo(full)
		got := w.apply(&Action{A: "ev", ID: id, Flush: true, Probe: true})
		r.rep.Calls++
		r.rep.Comparisons++
		e := p.Flush[id]
		if !eqRet(e.Ret, got.Ret) || !eqSent(e.Sent, got.Sent) {
			props := []string{"C11"}
			if !eqSent(e.Sent, got.Sent) {
				props = append(props, "C17")
			}
			r.mm(Mismatch{Props: props, What: "group of id " + id + " (flush probe)", Path: full,
				Expected: map[string]interface{}{"ret": e.Ret, "sent": e.Sent}, Observed: map[string]interface{}{"ret": got.Ret, "sent": got.Sent}})
		}
	}
}

func (r *replayer) runEdge(e *Edge) {
	w := r.replayTo(e.P)
	got := w.apply(&e.A)
	r.rep.Calls++
	r.compare(e.P, &e.A, got)
	full := append(append([]Action{}, e.P...), e.A)
	r.probes(full, &e.A, &e.Proj)
	r.rep.ActionCounts[e.A.A]++
	if e.A.A != "adv" && !(len(e.A.Ret) == 1 && e.A.Ret[0] == "err") {
		b, _ := json.Marshal(full)
		if !r.seen[string(b)] {
			r.seen[string(b)] = true
			r.rep.Nontrivial++
		}
	}
}

func (r *replayer) runWalk(steps []Step) {
	w := newWorld(r.cfg)
	var prefix []Action
	for i := range steps {
		s := &steps[i]
		got := w.apply(&s.A)
		r.rep.Calls++
		r.compare(prefix, &s.A, got)
		prefix = append(prefix, s.A)
		if i%6 == 5 || i == len(steps)-1 {
			r.probes(append([]Action{}, prefix...), &s.A, &s.Proj)
		}
		r.rep.ActionCounts[s.A.A]++
		if s.A.A != "adv" {
			r.rep.Nontrivial++
		}
	}
}

func decodeLine(line string, v interface{}) error {
	var inner string
	if err := json.Unmarshal([]byte(line), &inner); err != nil {
		return err
	}
	return json.Unmarshal([]byte(inner), v)
}

// Run replays a graph export and/or a walk export.
func Run(cfg *Config, edgesFile, walksFile string) (*Report, error) {
	rp := &replayer{cfg: cfg, rep: &Report{ByProp: map[string]int{}, ActionCounts: map[string]int{}, Mismatches: []Mismatch{}}, seen: map[string]bool{}}
	read := func(path string, fn func(string) error) error {
		f, err := os.Open(path)
		if err != nil {
			return err
		}
		defer f.Close()
		sc := bufio.NewScanner(f)
		sc.Buffer(make([]byte, 1<<20), 1<<28)
		for sc.Scan() {
			if line := sc.Text(); strings.HasPrefix(line, "\"") {
				if err := fn(line); err != nil {
					return err
				}
			}
		}
		return sc.Err()
	}
	if edgesFile != "" {
		if err := read(edgesFile, func(line string) error {
			var e Edge
			if err := decodeLine(line, &e); err != nil {
				return fmt.Errorf("bad edge: %w", err)
			}
			rp.runEdge(&e)
			rp.rep.Edges++
			if len(rp.rep.Samples) < 5 && rp.rep.Edges%1999 == 3 {
				rp.rep.Samples = append(rp.rep.Samples, e)
			}
			return nil
		}); err != nil {
			return nil, err
		}
	}
	if walksFile != "" {
		if err := read(walksFile, func(line string) error {
			var st []Step
			if err := decodeLine(line, &st); err != nil {
				return fmt.Errorf("bad walk: %w", err)
			}
			rp.runWalk(st)
			rp.rep.Walks++
			if len(rp.rep.Samples) < 6 && rp.rep.Walks%40 == 1 {
				var acts []Action
				for _, s := range st {
					acts = append(acts, s.A)
				}
				rp.rep.Samples = append(rp.rep.Samples, map[string]interface{}{"walk": acts})
			}
			return nil
		}); err != nil {
			return nil, err
		}
	}
	return rp.rep, nil
}
