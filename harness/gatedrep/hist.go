package gatedrep

import (
	"bytes"
	"context"
	"math/rand"
	"runtime"
	"strconv"
	"sync"
	"time"

	"github.com/hashicorp/eventlogger"
	"github.com/hashicorp/eventlogger/filters/gated"
)

// Concurrent histories of one gated.Filter, recorded as invocation / response events for
// validation by TLC (spec/gated/GatedTrace.tla).

// opctl belongs to one call; the filter runs ComposeFrom and Send synchronously in the caller's
// goroutine, so the goroutine id attributes them to the call (ComposeFrom is called on a payload the
// filter kept from an earlier event of the group, so the receiver says nothing about the caller).
type opctl struct {
	composes, sends int
	failKind        string
	failN           int
	sent            [][]int
}

type hctl struct{ ops sync.Map } // goroutine id -> *opctl

func goid() int64 {
	var buf [64]byte
	b := buf[:runtime.Stack(buf[:], false)]
	b = bytes.TrimPrefix(b, []byte("goroutine "))
	if i := bytes.IndexByte(b, ' '); i > 0 {
		n, _ := strconv.ParseInt(string(b[:i]), 10, 64)
		return n
	}
	return -1
}

func (h *hctl) cur() *opctl {
	if v, ok := h.ops.Load(goid()); ok {
		return v.(*opctl)
	}
	return &opctl{failKind: "none"}
}

type hpay struct {
	ID    string
	Flush bool
	Ord   int
	h     *hctl
}

func (p *hpay) GetID() string    { return p.ID }
func (p *hpay) FlushEvent() bool { return p.Flush }
func (p *hpay) ComposeFrom(events []*eventlogger.Event) (eventlogger.EventType, interface{}, error) {
	oc := p.h.cur()
	oc.composes++
	ords := []int{}
	for _, e := range events {
		if hp, ok := e.Payload.(*hpay); ok {
			ords = append(ords, hp.Ord)
		} else {
			ords = append(ords, -1)
		}
	}
	if oc.failKind == "compose" && oc.failN == oc.composes {
		return "", nil, errInjected
	}
	if oc.failKind == "gateable" && oc.failN == oc.composes {
		return "composite", &gcomp{comp: comp{Ords: ords}, flush: len(ords)%2 == 1}, nil
	}
	return "composite", &comp{Ords: ords}, nil
}

type hsender struct{ h *hctl }

func (s *hsender) Send(ctx context.Context, t eventlogger.EventType, payload interface{}) (eventlogger.Status, error) {
	oc := s.h.cur()
	oc.sends++
	if oc.failKind == "send" && oc.failN == oc.sends {
		return eventlogger.Status{}, errInjected
	}
	switch p := payload.(type) {
	case *comp:
		oc.sent = append(oc.sent, p.Ords)
	case *gcomp:
		oc.sent = append(oc.sent, append([]int{-2}, p.Ords...))
	default:
		oc.sent = append(oc.sent, []int{-3})
	}
	return eventlogger.Status{}, nil
}

// HRec is one history event.
type HRec map[string]interface{}

// GHistory is one recorded history.
type GHistory struct {
	ID  int      `json:"id"`
	G   int      `json:"g"`
	IDs []string `json:"ids"` // id of every event number
	H   []HRec   `json:"h"`
}

// RunGatedHistory runs 2..4 goroutines against one filter.
func RunGatedHistory(id int, seed int64, brokerSet bool, E int) (h *GHistory, panicked string) {
	rng := rand.New(rand.NewSource(seed))
	hc := &hctl{}
	var clk int64
	var gate sync.RWMutex // calls hold it shared, the clock advances under the exclusive lock
	f := &gated.Filter{Expiration: time.Duration(E) * time.Second, NowFunc: func() time.Time { return t0.Add(time.Duration(clk) * time.Second) }}
	if brokerSet {
		f.Broker = &hsender{h: hc}
	}
	var mu sync.Mutex
	var recs []HRec
	var opn, evn int
	ids := []string{}
	inv := func(r HRec, evID *string) (int, int) {
		mu.Lock()
		defer mu.Unlock()
		opn++
		r["k"], r["op"] = "inv", opn
		ev := 0
		if evID != nil {
			evn++
			ev = evn
			ids = append(ids, *evID)
			r["ev"] = ev
		}
		recs = append(recs, r)
		return opn, ev
	}
	resp := func(op int, r HRec) {
		mu.Lock()
		r["k"], r["op"] = "resp", op
		recs = append(recs, r)
		mu.Unlock()
	}
	G := 2 + rng.Intn(3)
	long := id%3 == 0 // long histories of one or two callers: stale state needs many calls and clock steps to show
	if long {
		G = 1 + rng.Intn(2)
	}
	// first-use histories: several callers hand a fresh filter its very first events at the same moment
	firstUse := id%5 == 1
	if firstUse {
		long = false
		G = 3 + rng.Intn(4)
	}
	withFails := id%2 == 0 && !firstUse
	idNames := []string{"x", "y", "z"}
	var pmu sync.Mutex
	var wg sync.WaitGroup
	doOp := func(r *rand.Rand, kind string) {
		oc := &opctl{failKind: "none"}
		if withFails && r.Intn(4) == 0 {
			ks := []string{"compose", "send", "gateable"}
			oc.failKind, oc.failN = ks[r.Intn(3)], 1+r.Intn(2)
		}
		fail := []interface{}{oc.failKind, oc.failN}
		hc.ops.Store(goid(), oc)
		defer hc.ops.Delete(goid())
		defer func() {
			if p := recover(); p != nil {
				pmu.Lock()
				panicked = "gated.Filter panicked: " + strconv.Quote(toString(p))
				pmu.Unlock()
			}
		}()
		ctx := context.Background()
		switch kind {
		case "adv":
			gate.Lock()
			op, _ := inv(HRec{"kind": "adv"}, nil)
			clk++
			resp(op, HRec{})
			gate.Unlock()
		case "plain":
			gate.RLock()
			dash := "-"
			op, ev := inv(HRec{"kind": "plain"}, &dash)
			e := &eventlogger.Event{Type: "t", Payload: &struct{ N int }{ev}, Formatted: map[string][]byte{}}
			out, err := f.Process(ctx, e)
			ret := "other"
			switch {
			case err != nil:
				ret = "err"
			case out == e:
				ret = "same"
			case out == nil:
				ret = "nil"
			}
			resp(op, HRec{"ret": []interface{}{ret}, "sent": nonNil(oc.sent)})
			gate.RUnlock()
		case "noid", "ev":
			gate.RLock()
			gid := ""
			if kind == "ev" {
				gid = idNames[r.Intn(len(idNames))]
			}
			flush := r.Intn(4) == 0
			op, ev := inv(HRec{"kind": kind, "id": gid, "flush": flush, "fail": fail}, &gid)
			e := &eventlogger.Event{Type: "t", CreatedAt: stamp(ev), Payload: &hpay{ID: idSpelling[gid], Flush: flush, Ord: ev, h: hc}, Formatted: map[string][]byte{}}
			out, err := f.Process(ctx, e)
			o := classify(out, err, &ctrl{sent: oc.sent})
			resp(op, HRec{"ret": o.Ret, "sent": nonNil(o.Sent)})
			gate.RUnlock()
		case "flushall", "close":
			gate.RLock()
			op, _ := inv(HRec{"kind": "flushall", "close": kind == "close", "fail": fail}, nil)
			var err error
			if kind == "close" {
				err = f.Close(ctx)
			} else {
				err = f.FlushAll(ctx)
			}
			o := classify(nil, err, &ctrl{sent: oc.sent})
			resp(op, HRec{"ret": o.Ret, "sent": nonNil(o.Sent)})
			gate.RUnlock()
		}
	}
	var startLine sync.WaitGroup
	startLine.Add(1)
	for g := 0; g < G; g++ {
		wg.Add(1)
		go func(g int) {
			defer wg.Done()
			r := rand.New(rand.NewSource(seed*977 + int64(g)))
			startLine.Wait()
			if firstUse {
				doOp(r, "ev")
				if r.Intn(2) == 0 {
					doOp(r, "ev")
				}
				return
			}
			n := 4 + r.Intn(4)
			if long {
				n = 22 + r.Intn(14)
			}
			for i := 0; i < n; i++ {
				x := r.Intn(100)
				if long && x >= 62 {
					// fewer odd events, more FlushAll and clock steps
					x = []int{68, 72, 75, 80, 83, 90, 91, 92, 93, 94, 95}[r.Intn(11)]
				}
				switch {
				case x < 62:
					doOp(r, "ev")
				case x < 68:
					doOp(r, "plain")
				case x < 72:
					doOp(r, "noid")
				case x < 82:
					doOp(r, "flushall")
				case x < 85:
					doOp(r, "close")
				default:
					doOp(r, "adv")
				}
				if r.Intn(3) == 0 {
					runtime.Gosched()
				}
			}
		}(g)
	}
	startLine.Done()
	wg.Wait()
	// quiescent probes: what is still gated must be what some sequential order leaves behind
	withFails = false
	for _, k := range []string{"flushall"} {
		doOp(rng, k)
	}
	return &GHistory{ID: id, G: G, IDs: ids, H: recs}, panicked
}

func nonNil(s [][]int) [][]int {
	if s == nil {
		return [][]int{}
	}
	return s
}

func toString(p interface{}) string {
	if e, ok := p.(error); ok {
		return e.Error()
	}
	if s, ok := p.(string); ok {
		return s
	}
	return "panic"
}
