package gatedrep

import (
	"context"
	"fmt"
	"math/rand"
	"runtime"
	"sync"
	"sync/atomic"
	"time"

	"github.com/hashicorp/eventlogger"
	"github.com/hashicorp/eventlogger/filters/gated"
)

// cpay is a Gateable payload for concurrent runs: ComposeFrom reports (under a lock) what it was given.
type cpay struct {
	ID    string
	Flush bool
	Ord   int
	cc    *cctrl
}

type cctrl struct {
	mu    sync.Mutex
	comps [][]int // every composite produced, in production order
}

func (p *cpay) GetID() string    { return p.ID }
func (p *cpay) FlushEvent() bool { return p.Flush }
func (p *cpay) ComposeFrom(events []*eventlogger.Event) (eventlogger.EventType, interface{}, error) {
	var ords []int
	for _, e := range events {
		ords = append(ords, e.Payload.(*cpay).Ord)
	}
	p.cc.mu.Lock()
	p.cc.comps = append(p.cc.comps, ords)
	p.cc.mu.Unlock()
	return "composite", &comp{Ords: ords}, nil
}

type csender struct{ n atomic.Int64 }

func (s *csender) Send(ctx context.Context, t eventlogger.EventType, payload interface{}) (eventlogger.Status, error) {
	s.n.Add(1)
	return eventlogger.Status{}, nil
}

// RunConc: senders process gateable events concurrently (flush events included), a flusher calls FlushAll,
// the clock advances; at the end FlushAll empties the gate. Every accepted event must be in exactly one
// composite, composites hold one id, and events of one sender keep their order inside a composite.
func RunConc(seed int64, senders, perSender int, withBroker bool) []Mismatch {
	var mms []Mismatch
	bad := func(props []string, what string, exp, obs interface{}) {
		if len(mms) < 6 {
			mms = append(mms, Mismatch{Props: props, What: what, Expected: exp, Observed: obs})
		}
	}
	cc := &cctrl{}
	var clk atomic.Int64
	f := &gated.Filter{Expiration: 3 * time.Second, NowFunc: func() time.Time { return t0.Add(time.Duration(clk.Load()) * time.Second) }}
	snd := &csender{}
	if withBroker {
		f.Broker = snd
	}
	type acc struct {
		ord, sender, seq int
		id               string
	}
	var mu sync.Mutex
	accepted := map[int]acc{}
	var ordc int64
	var wg sync.WaitGroup
	for s := 0; s < senders; s++ {
		wg.Add(1)
		go func(s int) {
			defer wg.Done()
			r := rand.New(rand.NewSource(seed + int64(s)*31))
			for i := 0; i < perSender; i++ {
				ord := int(atomic.AddInt64(&ordc, 1))
				id := fmt.Sprintf("g%d", r.Intn(4))
				e := &eventlogger.Event{Type: "t", CreatedAt: stamp(ord), Payload: &cpay{ID: id, Flush: r.Intn(5) == 0, Ord: ord, cc: cc}, Formatted: map[string][]byte{}}
				func() {
					defer func() {
						if p := recover(); p != nil {
							mu.Lock()
							bad([]string{"C11", "C19"}, "gated.Filter panicked under concurrent senders", "no panic", fmt.Sprint(p))
							mu.Unlock()
						}
					}()
					_, err := f.Process(context.Background(), e)
					if err == nil {
						mu.Lock()
						accepted[ord] = acc{ord, s, i, id}
						mu.Unlock()
					}
				}()
				if r.Intn(6) == 0 {
					clk.Add(1)
				}
			}
		}(s)
	}
	stop := make(chan struct{})
	var fw sync.WaitGroup
	fw.Add(1)
	go func() {
		defer fw.Done()
		for {
			select {
			case <-stop:
				return
			case <-time.After(300 * time.Microsecond):
				func() {
					defer func() { recover() }()
					f.FlushAll(context.Background())
				}()
			}
		}
	}()
	wg.Wait()
	close(stop)
	fw.Wait()
	if err := f.FlushAll(context.Background()); err != nil {
		bad([]string{"C17"}, "final FlushAll", nil, err.Error())
	}
	if !withBroker {
		return mms // without a Broker expired / flushed groups are legitimately dropped: only crash freedom is checked
	}
	// nothing remains gated after FlushAll: a flush probe per id returns only the probe itself
	for g := 0; g < 4; g++ {
		out, err := f.Process(context.Background(), &eventlogger.Event{Type: "t", Payload: &cpay{ID: fmt.Sprintf("g%d", g), Flush: true, Ord: -1, cc: cc}, Formatted: map[string][]byte{}})
		if err != nil || out == nil || len(out.Payload.(*comp).Ords) != 1 {
			bad([]string{"C17", "C11"}, "events remain gated after FlushAll returned", []int{-1}, fmt.Sprint(out, err))
		}
	}
	count := map[int]int{}
	cc.mu.Lock()
	comps := cc.comps
	cc.mu.Unlock()
	for _, c := range comps {
		lastSeq := map[int]int{}
		id := ""
		for _, o := range c {
			if o < 0 {
				continue
			}
			count[o]++
			a, ok := accepted[o]
			if !ok {
				continue // its own Process call may have failed after it was gated
			}
			if id == "" {
				id = a.id
			} else if a.id != id {
				bad([]string{"C11"}, "a composite mixes ids", id, a.id)
			}
			if prev, ok := lastSeq[a.sender]; ok && prev > a.seq {
				bad([]string{"C11"}, "events of one sender are out of arrival order inside a composite", "increasing", fmt.Sprint(c))
			}
			lastSeq[a.sender] = a.seq
		}
	}
	for o := range accepted {
		if count[o] != 1 {
			bad([]string{"C11"}, "an accepted event was handed to composition a wrong number of times", 1, fmt.Sprintf("event %d: %d times", o, count[o]))
		}
	}
	return mms
}

// FirstUse: several callers hand a fresh filter its very first events at the same moment (the filter initialises
// itself lazily inside Process). Gated.tla: every accepted event is handed to composition exactly once - here by the
// FlushAll that follows.
func FirstUse(seed int64, rounds int) []Mismatch {
	var mms []Mismatch
	const callers = 8
	for i := 0; i < rounds && len(mms) < 3; i++ {
		cc := &cctrl{}
		f := &gated.Filter{Broker: &csender{}, Expiration: time.Hour}
		var done sync.WaitGroup
		var ready atomic.Int64
		var goFlag atomic.Bool // spin barrier: the callers are running on their cores when they are let go
		accepted := make([]bool, callers)
		for k := 0; k < callers; k++ {
			done.Add(1)
			go func(k int) {
				defer done.Done()
				e := &eventlogger.Event{Type: "t", Payload: &cpay{ID: fmt.Sprintf("first-%d", k%5), Ord: k + 1, cc: cc}, Formatted: map[string][]byte{}}
				ready.Add(1)
				for !goFlag.Load() {
				}
				out, err := f.Process(context.Background(), e)
				accepted[k] = err == nil && out == nil
			}(k)
		}
		for ready.Load() < callers {
			runtime.Gosched()
		}
		goFlag.Store(true)
		done.Wait()
		if err := f.FlushAll(context.Background()); err != nil {
			mms = append(mms, Mismatch{Props: []string{"C17"}, What: "FlushAll after concurrent first use", Expected: nil, Observed: err.Error()})
			continue
		}
		count := map[int]int{}
		cc.mu.Lock()
		for _, c := range cc.comps {
			for _, o := range c {
				count[o]++
			}
		}
		cc.mu.Unlock()
		for k := 0; k < callers; k++ {
			if accepted[k] && count[k+1] != 1 {
				mms = append(mms, Mismatch{Props: []string{"C11"}, What: "an event accepted during the concurrent first use of a fresh filter was handed to composition a wrong number of times", Expected: 1, Observed: fmt.Sprintf("event %d: %d times (round %d)", k+1, count[k+1], i)})
				break
			}
		}
	}
	return mms
}

// RunTicking: one caller, a clock that moves on with every reading (a real clock never stands still during a call:
// the expiry sweep and the gating of one Process call see different instants). Which group an event joins then
// depends on the instant each decision was made, but conservation does not: with a Broker every accepted event is in
// exactly one composite once a final FlushAll returned, a composite holds events of one id only, and the events of
// an id come out in the order they went in.
func RunTicking(seed int64) []Mismatch {
	var mms []Mismatch
	bad := func(props []string, what string, exp, obs interface{}) {
		if len(mms) < 4 {
			mms = append(mms, Mismatch{Props: props, What: what, Expected: exp, Observed: obs})
		}
	}
	rng := rand.New(rand.NewSource(seed))
	cc := &cctrl{}
	var reads int64
	step := time.Millisecond
	f := &gated.Filter{Broker: &csender{}, Expiration: time.Duration(2+rng.Intn(60)) * step,
		NowFunc: func() time.Time { reads++; return t0.Add(time.Duration(reads) * step) }}
	ctx := context.Background()
	ids := []string{"x", "y", "z"}
	idOf := map[int]string{}
	var accepted []int
	n := 30 + rng.Intn(90)
	for i := 1; i <= n; i++ {
		switch x := rng.Intn(100); {
		case x < 88:
			id := ids[rng.Intn(1+rng.Intn(3))]
			idOf[i] = id
			e := &eventlogger.Event{Type: "t", CreatedAt: t0, Payload: &cpay{ID: id, Flush: rng.Intn(6) == 0, Ord: i, cc: cc}, Formatted: map[string][]byte{}}
			if _, err := f.Process(ctx, e); err == nil {
				accepted = append(accepted, i)
			}
			if rng.Intn(4) == 0 {
				reads += int64(rng.Intn(40)) // time passes between calls as well
			}
		case x < 96:
			f.FlushAll(ctx)
		default:
			f.Close(ctx)
		}
	}
	if err := f.FlushAll(ctx); err != nil {
		bad([]string{"C17"}, "final FlushAll with a Broker that never fails", "nil", err.Error())
	}
	seen := map[int]int{}
	last := map[string]int{}
	for _, c := range cc.comps {
		for _, o := range c {
			seen[o]++
			if idOf[o] != idOf[c[0]] {
				bad([]string{"C11"}, "a composite mixes ids (clock ticking with every reading)", idOf[c[0]], fmt.Sprint(c))
			}
			if o < last[idOf[o]] {
				bad([]string{"C11"}, "events of one id left the filter out of order (clock ticking with every reading)", "arrival order", fmt.Sprint(cc.comps))
			}
			last[idOf[o]] = o
		}
	}
	for _, o := range accepted {
		if seen[o] != 1 {
			bad([]string{"C11", "C17"}, fmt.Sprintf("accepted event %d (id %s) is in %d composites after the final FlushAll returned nil (clock ticking with every reading, expiration %v, %d calls)", o, idOf[o], seen[o], f.Expiration, n),
				1, fmt.Sprint(cc.comps))
			break
		}
	}
	return mms
}

// RunScale: many more groups than the bounded model has ids expire together. One successful Process call at a time past
// all their expiries emits every one of them, oldest first, and leaves only what it gated itself (Gated.tla's
// NoExpiredAfterProcess and ExpiredOldestFirst do not depend on how many groups there are).
func RunScale(groups int, withBroker bool) []Mismatch {
	var mms []Mismatch
	cc := &cctrl{}
	var clk int64
	// (the expiration is longer than the time it takes to gate all groups: nothing expires before the clock jumps)
	f := &gated.Filter{Expiration: time.Duration(groups+100) * time.Second, NowFunc: func() time.Time { return t0.Add(time.Duration(clk) * time.Second) }}
	if withBroker {
		f.Broker = &csender{}
	}
	ctx := context.Background()
	ord := 0
	send := func(id string, flush bool) error {
		ord++
		_, err := f.Process(ctx, &eventlogger.Event{Type: "t", CreatedAt: t0, Payload: &cpay{ID: id, Flush: flush, Ord: ord, cc: cc}, Formatted: map[string][]byte{}})
		return err
	}
	for g := 0; g < groups; g++ {
		if err := send(fmt.Sprintf("group-%03d", g), false); err != nil {
			return []Mismatch{{Props: []string{"C11"}, What: "gating an event", Expected: "nil", Observed: err.Error()}}
		}
		if g%3 == 0 {
			clk++ // the groups do not all have the same expiry
		}
	}
	clk += int64(groups) + 1000
	before := len(cc.comps)
	if err := send("late", false); err != nil {
		return []Mismatch{{Props: []string{"C17"}, What: "Process after every group expired", Expected: "nil", Observed: err.Error()}}
	}
	emitted := cc.comps[before:]
	if withBroker {
		if len(emitted) != groups {
			mms = append(mms, Mismatch{Props: []string{"C17"}, What: fmt.Sprintf("%d groups had expired when Process was called: composites handed to the Broker by that call", groups), Expected: groups, Observed: len(emitted)})
		}
		for i := 1; i < len(emitted); i++ {
			if emitted[i][0] < emitted[i-1][0] {
				mms = append(mms, Mismatch{Props: []string{"C17"}, What: "expired groups leave oldest first", Expected: "ascending", Observed: fmt.Sprint(emitted)})
				break
			}
		}
	}
	// what is still gated: only the late event
	before = len(cc.comps)
	f.FlushAll(ctx)
	left := 0
	for _, c := range cc.comps[before:] {
		left += len(c)
	}
	if withBroker && left != 1 {
		mms = append(mms, Mismatch{Props: []string{"C17"}, What: fmt.Sprintf("events still gated after a Process call past the expiry of all %d groups (FlushAll probe)", groups), Expected: 1, Observed: left})
	}
	return mms
}
