// Package cerep replays the CloudEvents decision table on the real
// cloudevents.FormatterFilter and checks the stored document.
package cerep

import (
	"bufio"
	"bytes"
	"context"
	"encoding/base64"
	"encoding/json"
	"errors"
	"fmt"
	"math/rand"
	"net/url"
	"os"
	"reflect"
	"strings"
	"sync"
	"sync/atomic"
	"time"

	"github.com/hashicorp/eventlogger"
	"github.com/hashicorp/eventlogger/formatter_filters/cloudevents"
)

type Vec struct {
	V struct {
		Payload string `json:"payload"`
		Format  string `json:"format"`
		Schema  string `json:"schema"`
		Source  string `json:"source"`
		Signer  string `json:"signer"`
		Listed  bool   `json:"listed"`
		Pred    string `json:"pred"`
	} `json:"v"`
	Outcome string `json:"outcome"`
	Key     string `json:"key"`
}

type Mismatch struct {
	What     string      `json:"what"`
	Vector   interface{} `json:"vector"`
	Expected interface{} `json:"expected"`
	Observed interface{} `json:"observed"`
}

type Report struct {
	Vectors    int           `json:"vectors"`
	Runs       int           `json:"runs"`
	Nontrivial int           `json:"distinct_nontrivial"`
	MismatchN  int           `json:"mismatch_count"`
	Mismatches []Mismatch    `json:"mismatches"`
	Samples    []interface{} `json:"samples"`
}

func (r *Report) mm(m Mismatch) {
	r.MismatchN++
	if len(r.Mismatches) < 40 {
		r.Mismatches = append(r.Mismatches, m)
	}
}

type plain struct {
	A string            `json:"a"`
	N int               `json:"n"`
	M map[string]string `json:"m,omitempty"`
}
type withID struct {
	plain
	id string
}

func (w *withID) ID() string { return w.id }

type withData struct {
	plain
	d interface{}
}

func (w *withData) Data() interface{} { return w.d }

type withBoth struct {
	plain
	id string
	d  interface{}
}

func (w *withBoth) ID() string        { return w.id }
func (w *withBoth) Data() interface{} { return w.d }

var errSign = errors.New("harness: signer failed")
var errPred = errors.New("harness: predicate failed")

func decodeLine(line string, v interface{}) error {
	var inner string
	if err := json.Unmarshal([]byte(line), &inner); err != nil {
		return err
	}
	return json.Unmarshal([]byte(inner), v)
}

// Run replays every vector conc times with random content.
func Run(file string, seed int64, conc int) (*Report, error) {
	rep := &Report{Mismatches: []Mismatch{}}
	f, err := os.Open(file)
	if err != nil {
		return nil, err
	}
	defer f.Close()
	rng := rand.New(rand.NewSource(seed))
	fresh := map[string]bool{}
	sc := bufio.NewScanner(f)
	sc.Buffer(make([]byte, 1<<20), 1<<26)
	for sc.Scan() {
		line := sc.Text()
		if !strings.HasPrefix(line, "\"") {
			continue
		}
		v := &Vec{}
		if err := decodeLine(line, v); err != nil {
			return nil, err
		}
		rep.Vectors++
		for c := 0; c < conc; c++ {
			runVec(rep, v, rng, fresh)
		}
		if v.Outcome == "signed" || v.Outcome == "unsigned" {
			rep.Nontrivial++
		}
		if len(rep.Samples) < 4 && rep.Vectors%997 == 5 {
			rep.Samples = append(rep.Samples, v)
		}
	}
	// the configuration in force when an event is formatted decides: one formatter, its list of signed types changed
	// between events
	{
		rep.Runs++
		srcu, _ := url.Parse("https://example.com/seq")
		ffs := &cloudevents.FormatterFilter{Source: srcu, Format: cloudevents.FormatJSON,
			Signer: func(_ context.Context, b []byte) (string, error) { return "sig", nil }}
		steps := []struct {
			list []string
			typ  string
			want bool
		}{{[]string{"audit"}, "audit", true}, {[]string{"audit"}, "system", false}, {[]string{"system"}, "system", true}, {[]string{"system"}, "audit", false},
			{nil, "audit", false}, {[]string{"audit", "system"}, "system", true}}
		for i, st := range steps {
			ffs.SignEventTypes = st.list
			e := &eventlogger.Event{Type: eventlogger.EventType(st.typ), CreatedAt: time.Now(), Payload: "p", Formatted: map[string][]byte{}}
			if _, err := ffs.Process(context.Background(), e); err != nil {
				rep.mm(Mismatch{What: "Process in a sequence of events with a changing SignEventTypes list", Vector: i, Expected: "ok", Observed: err.Error()})
				continue
			}
			b, _ := e.Format(string(cloudevents.FormatJSON))
			var ce cloudevents.Event
			json.Unmarshal(b, &ce)
			if signed := ce.Serialized != "" && ce.SerializedHmac != ""; signed != st.want {
				rep.mm(Mismatch{What: "signature present iff the event's type is in the list in force when it is formatted", Vector: fmt.Sprintf("step %d: list %v, type %s", i, st.list, st.typ), Expected: st.want, Observed: signed})
			}
		}
	}
	// fresh ids stay unique when events are formatted concurrently
	rep.Runs++
	var mu sync.Mutex
	seen := map[string]int{}
	var torn atomic.Int64
	var wg sync.WaitGroup
	src, _ := url.Parse("https://example.com/ids")
	ffc := &cloudevents.FormatterFilter{Source: src}
	for g := 0; g < 16; g++ {
		wg.Add(1)
		go func() {
			defer wg.Done()
			local := make([]string, 0, 12000)
			for i := 0; i < 12000; i++ {
				e := &eventlogger.Event{Type: "t", CreatedAt: time.Now(), Payload: "p", Formatted: map[string][]byte{}}
				if _, err := ffc.Process(context.Background(), e); err != nil {
					continue
				}
				b, _ := e.Format(string(cloudevents.FormatJSON))
				b = append([]byte{}, b...) // decode a private copy: a document that still changes must not take the decoder down
				var ce cloudevents.Event
				if json.Unmarshal(b, &ce) == nil {
					local = append(local, ce.ID)
				} else {
					torn.Add(1)
				}
			}
			mu.Lock()
			for _, id := range local {
				seen[id]++
			}
			mu.Unlock()
		}()
	}
	wg.Wait()
	if n := torn.Load(); n > 0 {
		rep.mm(Mismatch{What: "documents stored under concurrent formatting are valid JSON", Vector: "16 goroutines x 12000 events", Expected: "all valid", Observed: fmt.Sprintf("%d documents did not parse", n)})
	}
	dups := 0
	ex := ""
	for id, n := range seen {
		if n > 1 {
			dups++
			ex = id
		}
	}
	if dups > 0 {
		rep.mm(Mismatch{What: "generated cloudevent ids are not unique under concurrent formatting", Vector: "16 goroutines x 12000 events without ID()", Expected: "all distinct", Observed: fmt.Sprintf("%d ids handed out more than once (e.g. %q)", dups, ex)})
	}
	return rep, sc.Err()
}

var held struct {
	e   *eventlogger.Event
	key string
	doc []byte
	vec interface{}
}

// emptyURL returns one of the spellings of a URL that renders as "": the zero value, or one that only has
// fields String() ignores when everything else is empty. All of them are "empty" in Cloudevents.tla.
func emptyURL(rng *rand.Rand) *url.URL {
	for {
		var u *url.URL
		switch rng.Intn(5) {
		case 0, 1:
			u = &url.URL{}
		case 2:
			u = &url.URL{RawPath: "a%2Fb"}
		case 3:
			u = &url.URL{RawFragment: "s%2F1"}
		default:
			u = &url.URL{OmitHost: true}
		}
		if u.String() == "" {
			return u
		}
	}
}

func runVec(rep *Report, v *Vec, rng *rand.Rand, fresh map[string]bool) {
	rep.Runs++
	ff := &cloudevents.FormatterFilter{}
	switch v.V.Source {
	case "set":
		ff.Source, _ = url.Parse(fmt.Sprintf("https://example.com/src/%d", rng.Intn(1000)))
	case "empty":
		ff.Source = emptyURL(rng)
	}
	switch v.V.Schema {
	case "set":
		ff.Schema, _ = url.Parse(fmt.Sprintf("https://example.com/schema/%d.json", rng.Intn(1000)))
	case "empty":
		ff.Schema = emptyURL(rng)
	}
	switch v.V.Format {
	case "json":
		ff.Format = cloudevents.FormatJSON
	case "text":
		ff.Format = cloudevents.FormatText
	case "invalid":
		ff.Format = cloudevents.Format("xml")
	}
	var signedInput []byte
	sig := fmt.Sprintf("sig-%d", rng.Int63())
	switch v.V.Signer {
	case "ok":
		ff.Signer = func(_ context.Context, b []byte) (string, error) {
			signedInput = append([]byte{}, b...)
			return sig, nil
		}
	case "failing":
		ff.Signer = func(_ context.Context, b []byte) (string, error) { return "", errSign }
		if rng.Intn(3) == 0 {
			// a signer can also fail by panicking (a closed HSM session, a nil key map): whatever becomes of the panic,
			// the event is not forwarded unsigned
			ff.Signer = func(_ context.Context, b []byte) (string, error) { panic("harness: the signer panicked") }
		}
	}
	typ := fmt.Sprintf("type-%d", rng.Intn(5))
	if rng.Intn(4) == 0 {
		typ = "ty\"pe/ü"
	}
	// "listed" is exact membership: spellings that differ from the event's type in letter case, surrounding blanks,
	// one character more or less, or a pattern that would match it stand in the list of every vector and never make
	// an unlisted type signed (nor a listed one unsigned)
	near := []string{"other"}
	if rng.Intn(3) > 0 {
		for _, n := range []string{strings.ToUpper(typ), strings.ToUpper(typ[:1]) + typ[1:], typ + " ", " " + typ, typ[:len(typ)-1], typ + "x", "*", "type-*", ".*", ""} {
			if n != typ {
				near = append(near, n)
			}
		}
		rng.Shuffle(len(near), func(i, j int) { near[i], near[j] = near[j], near[i] })
	}
	if v.V.Listed {
		k := rng.Intn(len(near) + 1)
		ff.SignEventTypes = append(append(append([]string{}, near[:k]...), typ), near[k:]...)
	} else {
		ff.SignEventTypes = near
	}
	switch v.V.Pred {
	case "true":
		ff.Predicate = func(context.Context, interface{}) (bool, error) { return true, nil }
	case "false":
		ff.Predicate = func(context.Context, interface{}) (bool, error) { return false, nil }
	case "error":
		ff.Predicate = func(context.Context, interface{}) (bool, error) { return false, errPred }
	}
	base := plain{A: fmt.Sprintf("val-%d <&> é", rng.Intn(1e6)), N: rng.Intn(1e9), M: map[string]string{"k": "v"}}
	var payload interface{}
	var wantData interface{} = &base
	wantID := ""
	switch v.V.Payload {
	case "plain":
		payload = &base
	case "id":
		wantID = fmt.Sprintf("id-%d", rng.Int63())
		p := &withID{plain: base, id: wantID}
		payload, wantData = p, p
	case "emptyid":
		p := &withID{plain: base, id: ""}
		payload, wantData = p, p
	case "data":
		d := map[string]interface{}{"x": float64(rng.Intn(100)), "s": "d"}
		payload, wantData = &withData{plain: base, d: d}, d
		if rng.Intn(3) == 0 {
			// a payload that publishes nothing for this event: Data() is nil, the document carries no data
			payload, wantData = &withData{plain: base, d: nil}, nil
		}
	case "both":
		wantID = fmt.Sprintf("id-%d", rng.Int63())
		d := []interface{}{"a", float64(1)}
		payload, wantData = &withBoth{plain: base, id: wantID, d: d}, d
	}
	created := time.Date(2023, 4, 5, 6, 7, 8, rng.Intn(1e9), time.UTC)
	e := &eventlogger.Event{Type: eventlogger.EventType(typ), CreatedAt: created, Payload: payload, Formatted: map[string][]byte{}}
	if rng.Intn(2) == 0 {
		// the event has been through another cloudevents formatter of the same format already (another pipeline of the
		// type, or a formatter earlier in this one): what that one stored has nothing to say about this one's document
		other := &cloudevents.FormatterFilter{Format: ff.Format}
		other.Source, _ = url.Parse("https://elsewhere.example/other")
		if other.Format == cloudevents.Format("xml") {
			other.Format = cloudevents.FormatJSON
		}
		other.Process(context.Background(), e)
	}
	// the outcome does not depend on the state of the context: a document whose type is listed is signed or refused,
	// never forwarded unsigned because the request behind it has been given up
	pctx := context.Background()
	if rng.Intn(3) == 0 {
		c, cancel := context.WithCancel(pctx)
		cancel()
		pctx = c
	}
	var out *eventlogger.Event
	var err error
	func() {
		defer func() {
			if p := recover(); p != nil {
				out, err = nil, fmt.Errorf("Process panicked: %v", p) // nothing was forwarded
			}
		}()
		out, err = ff.Process(pctx, e)
	}()
	func() {
		if held.e != nil {
			if cur, ok := held.e.Format(held.key); !ok || !bytes.Equal(cur, held.doc) {
				rep.mm(Mismatch{What: "the document stored for an earlier event changed when a later event was formatted", Vector: held.vec, Expected: string(held.doc), Observed: string(cur)})
			}
			held.e = nil
		}
	}()
	got := ""
	switch {
	case err != nil:
		got = "error"
		if out != nil {
			rep.mm(Mismatch{What: "an event was forwarded together with an error", Vector: v.V, Expected: "(nil, err)", Observed: "event"})
		}
	case out == nil:
		got = "dropped"
	default:
		got = "forwarded"
		if out != e {
			rep.mm(Mismatch{What: "a different event was forwarded", Vector: v.V, Expected: "same event", Observed: "other"})
		}
	}
	want := v.Outcome
	if want == "signed" || want == "unsigned" {
		want = "forwarded"
	}
	if got != want {
		rep.mm(Mismatch{What: "outcome of Process", Vector: v.V, Expected: v.Outcome, Observed: got})
		return
	}
	if got != "forwarded" {
		return
	}
	doc, ok := e.Format(v.Key)
	if !ok {
		rep.mm(Mismatch{What: "no document stored under the configured format", Vector: v.V, Expected: v.Key, Observed: "absent"})
		return
	}
	doc = append([]byte{}, doc...)
	held.e, held.key, held.doc, held.vec = e, v.Key, append([]byte{}, doc...), v.V
	var ce cloudevents.Event
	var generic map[string]json.RawMessage
	if json.Unmarshal(doc, &ce) != nil || json.Unmarshal(doc, &generic) != nil {
		rep.mm(Mismatch{What: "stored document is not valid JSON", Vector: v.V, Expected: "JSON", Observed: string(doc)})
		return
	}
	bad := func(what string, exp, obs interface{}) {
		rep.mm(Mismatch{What: what, Vector: v.V, Expected: exp, Observed: obs})
	}
	if ce.ID == "" || (wantID != "" && ce.ID != wantID) {
		bad("cloudevent id", wantID, ce.ID)
	}
	if wantID == "" {
		if fresh[ce.ID] {
			bad("generated id is not unique", "fresh", ce.ID)
		}
		fresh[ce.ID] = true
	}
	if ce.Source != ff.Source.String() || ce.SpecVersion != "1.0" || ce.Type != typ {
		bad("required attributes source / specversion / type", []string{ff.Source.String(), "1.0", typ}, []string{ce.Source, ce.SpecVersion, ce.Type})
	}
	for _, k := range []string{"id", "source", "specversion", "type"} {
		if _, ok := generic[k]; !ok {
			bad("required attribute missing", k, "absent")
		}
	}
	if !ce.Time.Equal(created) {
		bad("time attribute", created, ce.Time)
	}
	wantCT := "application/cloudevents"
	if v.V.Format == "text" {
		wantCT = "text/plain"
	}
	if ce.DataContentType != wantCT {
		bad("content type", wantCT, ce.DataContentType)
	}
	if v.V.Schema == "set" {
		if ce.DataSchema != ff.Schema.String() {
			bad("dataschema", ff.Schema.String(), ce.DataSchema)
		}
	} else if ce.DataSchema != "" {
		bad("dataschema", "", ce.DataSchema)
	}
	wd, _ := json.Marshal(wantData)
	var a, b interface{}
	json.Unmarshal(wd, &a)
	json.Unmarshal(generic["data"], &b)
	if !reflect.DeepEqual(a, b) {
		bad("data member", string(wd), string(generic["data"]))
	}
	indented := bytes.Contains(doc, []byte("\n  \""))
	if (v.V.Format == "text") != indented {
		bad("indentation of the stored document", v.V.Format == "text", indented)
	}
	if v.Outcome == "signed" {
		if ce.Serialized == "" || ce.SerializedHmac == "" {
			bad("signed event lacks serialized / serialized_hmac", "present", "absent")
			return
		}
		raw, err := base64.RawURLEncoding.DecodeString(ce.Serialized)
		if err != nil {
			bad("serialized is not base64url", "decodable", err.Error())
			return
		}
		// the exact unsigned document: the stored one re-encoded without the two signature members
		un := ce
		un.Serialized, un.SerializedHmac = "", ""
		un.Data = nil
		if raw, ok := generic["data"]; ok {
			un.Data = json.RawMessage(raw)
		}
		buf := &bytes.Buffer{}
		enc := json.NewEncoder(buf)
		if v.V.Format == "text" {
			enc.SetIndent("", cloudevents.TextIndent)
		}
		// compare as JSON values and require the signer to have seen exactly the serialized bytes
		var x, y interface{}
		enc.Encode(un)
		if json.Unmarshal(raw, &x) != nil || json.Unmarshal(buf.Bytes(), &y) != nil || !reflect.DeepEqual(x, y) {
			bad("serialized does not decode to the unsigned document", buf.String(), string(raw))
		}
		if !bytes.Equal(raw, signedInput) {
			bad("serialized is not the bytes that were signed", string(signedInput), string(raw))
		}
		if ce.SerializedHmac != sig {
			bad("serialized_hmac is not the signer's result", sig, ce.SerializedHmac)
		}
	} else if ce.Serialized != "" || ce.SerializedHmac != "" {
		bad("an event that must not be signed carries a signature", "unsigned", "signed")
	}
}
