package cerep

import (
	"bufio"
	"context"
	"crypto/sha256"
	"encoding/base64"
	"encoding/hex"
	"encoding/json"
	"fmt"
	"net/url"
	"os"
	"strings"
	"time"

	"github.com/hashicorp/eventlogger"
	"github.com/hashicorp/eventlogger/formatter_filters/cloudevents"
)

// SeqStep is one step of a CeSeq.tla behaviour: the action, its argument and the result the model expects.
type SeqStep struct {
	A string `json:"a"`
	S string `json:"s"`
	R string `json:"r"`
}

func labelled(label string) cloudevents.Signer {
	return func(_ context.Context, b []byte) (string, error) {
		h := sha256.Sum256(b)
		return label + ":" + hex.EncodeToString(h[:8]), nil
	}
}

// RunSeq replays every exported sequence of CeSeq.tla (Rotate / Rotate(nil) / SignEventTypes changed / an event
// formatted) on one real FormatterFilter per sequence and compares every step's result.
func RunSeq(file string, rep *Report) error {
	f, err := os.Open(file)
	if err != nil {
		return err
	}
	defer f.Close()
	src, _ := url.Parse("https://example.com/seq")
	lists := map[string][]string{"none": nil, "audit": {"audit"}, "system": {"system"}, "both": {"audit", "system"}}
	sc := bufio.NewScanner(f)
	sc.Buffer(make([]byte, 1<<20), 1<<26)
	n := 0
	for sc.Scan() {
		line := sc.Text()
		if !strings.HasPrefix(line, "\"") {
			continue
		}
		var t struct {
			Path []SeqStep `json:"path"`
		}
		if err := decodeLine(line, &t); err != nil {
			return err
		}
		n++
		rep.Runs++
		ff := &cloudevents.FormatterFilter{Source: src, Format: cloudevents.FormatJSON}
		if n%2 == 0 {
			ff.SignEventTypes = []string{} // "no list" spelled as an empty one
		}
		bad := func(i int, what string, exp, obs interface{}) {
			rep.mm(Mismatch{What: "configuration sequence (CeSeq): " + what, Vector: map[string]interface{}{"path": t.Path[:i+1]}, Expected: exp, Observed: obs})
		}
	steps:
		for i, st := range t.Path {
			switch st.A {
			case "init":
				if st.S != "none" {
					ff.Signer = labelled(st.S)
				}
			case "rot":
				if err := ff.Rotate(labelled(st.S)); err != nil {
					bad(i, "Rotate with a signer", "ok", err.Error())
					break steps
				}
			case "rotnil":
				if err := ff.Rotate(nil); err == nil {
					bad(i, "Rotate(nil)", "error", "nil")
					break steps
				}
			case "list":
				ff.SignEventTypes = lists[st.S]
			case "fmt":
				e := &eventlogger.Event{Type: eventlogger.EventType(st.S), CreatedAt: time.Now(), Payload: map[string]interface{}{"n": i}, Formatted: map[string][]byte{}}
				out, err := ff.Process(context.Background(), e)
				if err != nil || out == nil {
					bad(i, "an event is formatted", "forwarded", fmt.Sprint(err))
					break steps
				}
				b, _ := out.Format(string(cloudevents.FormatJSON))
				var ce cloudevents.Event
				if err := json.Unmarshal(b, &ce); err != nil {
					bad(i, "stored document", "a JSON document", err.Error())
					break steps
				}
				got := "unsigned"
				if ce.Serialized != "" || ce.SerializedHmac != "" {
					raw, derr := base64.RawURLEncoding.DecodeString(ce.Serialized)
					if derr != nil {
						bad(i, "serialized decodes", "base64url", derr.Error())
						break steps
					}
					got = "?"
					for _, l := range []string{"I", "A", "B"} {
						if want, _ := labelled(l)(context.Background(), raw); want == ce.SerializedHmac {
							got = l
						}
					}
				}
				if got != st.R {
					bad(i, "who signed the event (the signer in force when it is formatted, if its type is in the list in force)", st.R, got)
					break steps
				}
			}
		}
	}
	if n < 100 {
		return fmt.Errorf("too few CeSeq sequences: %d", n)
	}
	return nil
}
