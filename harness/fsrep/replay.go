// Package fsrep binds the TLA+ modules FsSeq / FileSink to the real
// eventlogger.FileSink: model behaviours are replayed in temporary directories and
// the directory listing, file contents, modes and exported counters are compared
// with the model after every step.
package fsrep

import (
	"bufio"
	"context"
	"encoding/json"
	"fmt"
	"os"
	"path/filepath"
	"reflect"
	"regexp"
	"sort"
	"strconv"
	"strings"
	"sync"
	"time"

	"github.com/hashicorp/eventlogger"
)

const (
	Unit     = 40            // bytes per model size unit
	baseName = "catalog.log" // a stem that ends in characters of its extension: "catalog" + ".log"
	MaxDur   = 80 * time.Millisecond
	PauseDur = 140 * time.Millisecond
	safeDur  = 45 * time.Millisecond
)

// Config mirrors the constants of FsSeq.
type Config struct {
	MaxBytes int   `json:"max_bytes"` // model units
	MaxFiles int   `json:"max_files"`
	DurOn    bool  `json:"dur_on"`
	TOOR     bool  `json:"toor"`
	Mode     int   `json:"mode"` // 0 = default
	Neg      bool  `json:"neg"`  // spell a disabled limit as a negative value instead of 0
	Seed     int64 `json:"seed"`
}

type Action struct {
	A       string `json:"a"`
	Sz      int    `json:"sz,omitempty"`
	Ev      int    `json:"ev,omitempty"`
	OK      bool   `json:"ok,omitempty"`
	Rotated bool   `json:"rotated,omitempty"`
	Texp    bool   `json:"texp,omitempty"` // the model considers MaxDuration elapsed at this write
}

type Proj struct {
	Ts   [][]int       `json:"ts"`
	Act  []interface{} `json:"act"`
	Ext  [][]int       `json:"ext"`
	Bw   int           `json:"bw"`
	Open bool          `json:"open"`
	Rot  int           `json:"rot"`
}

type Edge struct {
	P    []Action `json:"p"`
	A    Action   `json:"a"`
	Proj Proj     `json:"proj"`
}

type Mismatch struct {
	Props    []string    `json:"props"`
	What     string      `json:"what"`
	Path     []Action    `json:"path"`
	Action   *Action     `json:"action,omitempty"`
	Expected interface{} `json:"expected"`
	Observed interface{} `json:"observed"`
}

type Report struct {
	Edges       int            `json:"edges"`
	Skipped     int            `json:"skipped_timing"`
	Calls       int            `json:"calls"`
	Comparisons int            `json:"comparisons"`
	Nontrivial  int            `json:"distinct_nontrivial"`
	MismatchN   int            `json:"mismatch_count"`
	ByProp      map[string]int `json:"by_prop"`
	Mismatches  []Mismatch     `json:"mismatches"`
	Samples     []interface{}  `json:"samples"`
	Rotations   int            `json:"rotations_observed"`
	mu          sync.Mutex
}

func (r *Report) mm(m Mismatch) {
	r.mu.Lock()
	defer r.mu.Unlock()
	r.MismatchN++
	for _, p := range m.Props {
		r.ByProp[p]++
	}
	if len(r.Mismatches) < 60 {
		r.Mismatches = append(r.Mismatches, m)
	}
}

// Token builds the bytes of event id with exactly size bytes: "E000012|xxxx\n".
func Token(id, size int) []byte {
	head := fmt.Sprintf("E%06d|", id)
	if size < len(head)+1 {
		size = len(head) + 1
	}
	b := make([]byte, size)
	copy(b, head)
	for i := len(head); i < size-1; i++ {
		b[i] = 'a' + byte((id+i)%26)
	}
	b[size-1] = '\n'
	return b
}

var tokRe = regexp.MustCompile(`^E(\d{6})\|([a-z]*)$`)

// ParseFile returns the event ids in a file; torn or foreign bytes yield an error.
func ParseFile(path string, sizes map[int]int) ([]int, error) {
	b, err := os.ReadFile(path)
	if err != nil {
		return nil, err
	}
	var ids []int
	if len(b) == 0 {
		return ids, nil
	}
	if b[len(b)-1] != '\n' {
		return nil, fmt.Errorf("%s does not end with a whole event", filepath.Base(path))
	}
	for _, line := range strings.Split(string(b[:len(b)-1]), "\n") {
		m := tokRe.FindStringSubmatch(line)
		if m == nil {
			return nil, fmt.Errorf("%s contains bytes that are not a whole event: %q", filepath.Base(path), line)
		}
		id, _ := strconv.Atoi(m[1])
		want := Token(id, len(line)+1)
		if string(want[:len(want)-1]) != line {
			return nil, fmt.Errorf("%s: event %d is not byte for byte what was written", filepath.Base(path), id)
		}
		if sizes != nil {
			if sz, ok := sizes[id]; ok && sz != len(line)+1 {
				return nil, fmt.Errorf("%s: event %d has %d bytes, %d were written", filepath.Base(path), id, len(line)+1, sz)
			}
		}
		ids = append(ids, id)
	}
	return ids, nil
}

// Listing is the parsed directory.
type Listing struct {
	Ts     [][]int
	TsName []string
	Act    []int
	HasAct bool
	Ext    map[int][]int
	Modes  map[string]os.FileMode
	Err    string
}

var tsRe = regexp.MustCompile(`^catalog-(\d+)\.log$`)
var extRe = regexp.MustCompile(`^(?:catalog \(copy (\d+)\)\.log|catalog_(\d+)\.log|catalogx-(\d+)\.log|cata-(\d+)\.log|ext-(\d+)\.dat)$`)

// ExtName is the name of the k-th file outside the sink's name space: neighbours that share the base name and the
// extension but not the "<base>-<timestamp><ext>" form (they sort before and after the sink's own files), or
// something else altogether.
func ExtName(k int) string {
	switch k % 5 {
	case 0:
		return fmt.Sprintf("catalog (copy %d).log", k)
	case 1:
		return fmt.Sprintf("catalog_%d.log", k)
	case 2:
		return fmt.Sprintf("catalogx-%d.log", k)
	case 3:
		return fmt.Sprintf("cata-%d.log", k) // the rotated file of a neighbour sink whose name is a prefix of ours
	}
	return fmt.Sprintf("ext-%d.dat", k)
}

func extIndex(name string) int {
	for _, g := range extRe.FindStringSubmatch(name)[1:] {
		if g != "" {
			k, _ := strconv.Atoi(g)
			return k
		}
	}
	return -1
}

func List(dir string, sizes map[int]int) Listing {
	l := Listing{Ext: map[int][]int{}, Modes: map[string]os.FileMode{}}
	ents, err := os.ReadDir(dir)
	if err != nil {
		if os.IsNotExist(err) {
			return l
		}
		l.Err = err.Error()
		return l
	}
	type tsf struct {
		n    int64
		name string
	}
	var tss []tsf
	for _, e := range ents {
		name := e.Name()
		if info, err := e.Info(); err == nil {
			l.Modes[name] = info.Mode().Perm()
		}
		switch {
		case name == baseName:
			ids, err := ParseFile(filepath.Join(dir, name), sizes)
			if err != nil {
				l.Err = err.Error()
			}
			l.Act, l.HasAct = ids, true
		case tsRe.MatchString(name):
			n, _ := strconv.ParseInt(tsRe.FindStringSubmatch(name)[1], 10, 64)
			tss = append(tss, tsf{n, name})
		case extRe.MatchString(name):
			k := extIndex(name)
			ids, err := ParseFile(filepath.Join(dir, name), sizes)
			if err != nil {
				l.Err = err.Error()
			}
			l.Ext[k] = ids
		default:
			l.Err = "unexpected file " + name
		}
	}
	sort.Slice(tss, func(i, j int) bool { return tss[i].n < tss[j].n })
	for _, t := range tss {
		ids, err := ParseFile(filepath.Join(dir, t.name), sizes)
		if err != nil {
			l.Err = err.Error()
		}
		l.Ts = append(l.Ts, ids)
		l.TsName = append(l.TsName, t.name)
	}
	return l
}

// world is one real FileSink in a fresh directory.
type world struct {
	cfg     *Config
	root    string
	dir     string
	fs      *eventlogger.FileSink
	nextExt int
	sizes   map[int]int
	acked   []int
	skip    bool // timing became ambiguous
}

func newWorld(cfg *Config) (*world, error) {
	root, err := os.MkdirTemp("", "verif-fs-")
	if err != nil {
		return nil, err
	}
	w := &world{cfg: cfg, root: root, dir: filepath.Join(root, "a", "b"), sizes: map[int]int{}}
	w.fs = &eventlogger.FileSink{Path: w.dir, FileName: baseName, MaxBytes: cfg.MaxBytes * Unit, MaxFiles: cfg.MaxFiles,
		TimestampOnlyOnRotate: cfg.TOOR, Mode: os.FileMode(cfg.Mode)}
	if cfg.DurOn {
		w.fs.MaxDuration = MaxDur
	} else if cfg.Neg && (cfg.TOOR || cfg.MaxBytes > 0) {
		// "no age limit" written as -1s (only where the naming scheme does not depend on it)
		w.fs.MaxDuration = -time.Second
	}
	if cfg.Neg && cfg.MaxBytes == 0 {
		w.fs.MaxBytes = -4 * Unit
	}
	return w, nil
}

func (w *world) close() { os.RemoveAll(w.root) }

// apply executes the action; ok reports Process's success for writes.
func (w *world) apply(a *Action) (ok bool) {
	switch a.A {
	case "write":
		size := a.Sz * Unit
		e := &eventlogger.Event{Type: "t", CreatedAt: time.Now(), Formatted: map[string][]byte{}}
		e.FormattedAs(eventlogger.JSONFormat, Token(a.Ev, size))
		w.sizes[a.Ev] = size
		// Time-triggered rotation is judged only where the measured interval makes the outcome certain:
		// the sink compares time.Since(LastCreated) with MaxDuration somewhere inside this call.
		if w.cfg.Neg && w.cfg.MaxFiles > 0 {
			// environment step without model state: modification times of the sink's files are rewritten
			// (backup / restore / touch) so that they run against the order of the names. Retention is
			// defined by the names' timestamps, so nothing the model predicts may change.
			l := List(w.dir, nil)
			for i, n := range l.TsName {
				t := time.Now().Add(time.Duration(len(l.TsName)-i) * time.Hour)
				os.Chtimes(filepath.Join(w.dir, n), t, t)
			}
		}
		lc := w.fs.LastCreated
		before := time.Since(lc)
		t0 := time.Now()
		_, err := w.fs.Process(context.Background(), e)
		after := time.Since(lc)
		if w.cfg.DurOn && lc.IsZero() && !a.Texp && time.Since(t0) >= MaxDur {
			// the file was created inside this call; the call itself took longer than MaxDuration (a stalled
			// machine), so the sink may have found its brand-new file expired
			w.skip = true
		}
		if w.cfg.DurOn && !lc.IsZero() {
			if a.Texp && before <= MaxDur {
				w.skip = true // the model says "elapsed", the clock cannot confirm it
			}
			if !a.Texp && after >= MaxDur {
				w.skip = true // the model says "not elapsed", but the call may have seen it elapsed
			}
		}
		if err == nil {
			w.acked = append(w.acked, a.Ev)
		}
		return err == nil
	case "reopen":
		return w.fs.Reopen() == nil
	case "extrename":
		// rename the active file to a name outside the sink's name space
		l := List(w.dir, nil)
		active := baseName
		if !l.HasAct || (!w.cfg.TOOR && (w.cfg.MaxBytes > 0 || w.cfg.DurOn)) {
			if len(l.TsName) == 0 {
				return false
			}
			active = l.TsName[len(l.TsName)-1]
		}
		err := os.Rename(filepath.Join(w.dir, active), filepath.Join(w.dir, ExtName(w.nextExt)))
		w.nextExt++
		return err == nil
	case "pause":
		time.Sleep(PauseDur)
		return true
	}
	panic("unknown action " + a.A)
}

// timingOK: without a model Pause the active file must still be young, otherwise the real sink may
// rotate on time although the model does not: such a run is skipped, never judged.
func (w *world) timingOK(modelExpired bool) bool {
	if !w.cfg.DurOn || w.fs.LastCreated.IsZero() {
		return true
	}
	el := time.Since(w.fs.LastCreated)
	if modelExpired {
		return el > MaxDur
	}
	return el < safeDur
}

func flat(files [][]int) []int {
	fs := make([][]int, 0, len(files))
	for _, f := range files {
		if len(f) > 0 {
			fs = append(fs, f)
		}
	}
	sort.Slice(fs, func(i, j int) bool { return fs[i][0] < fs[j][0] })
	var out []int
	for _, f := range fs {
		out = append(out, f...)
	}
	return out
}

func eqInts(a, b []int) bool {
	if len(a) == 0 && len(b) == 0 {
		return true
	}
	return reflect.DeepEqual(a, b)
}

func eq2(a, b [][]int) bool {
	if len(a) != len(b) {
		return false
	}
	for i := range a {
		if !eqInts(a[i], b[i]) {
			return false
		}
	}
	return true
}

func projAct(p *Proj) (bool, []int) {
	if len(p.Act) == 2 {
		var ids []int
		if l, ok := p.Act[1].([]interface{}); ok {
			for _, x := range l {
				ids = append(ids, int(x.(float64)))
			}
		}
		return true, ids
	}
	return false, nil
}

// compare checks the listing against the model projection.
func compare(rep *Report, cfg *Config, w *world, path []Action, a *Action, p *Proj, ok bool) {
	rep.mu.Lock()
	rep.Comparisons++
	rep.mu.Unlock()
	l := List(w.dir, w.sizes)
	if l.Err != "" {
		rep.mm(Mismatch{Props: []string{"C08", "C13"}, What: "files hold something that is not a sequence of whole events", Path: path, Action: a, Expected: "whole events", Observed: l.Err})
		return
	}
	if a.A == "write" && ok != a.OK {
		rep.mm(Mismatch{Props: []string{"C08", "C15"}, What: "result of Process", Path: path, Action: a, Expected: a.OK, Observed: ok})
	}
	hasAct, act := projAct(p)
	var real, model [][]int
	real = append(real, l.Ts...)
	model = append(model, p.Ts...)
	for k := 0; k < len(p.Ext) || k < len(l.Ext); k++ {
		if k < len(p.Ext) {
			model = append(model, p.Ext[k])
		}
		if ids, ok := l.Ext[k]; ok {
			real = append(real, ids)
		}
	}
	if l.HasAct {
		real = append(real, l.Act)
	}
	if hasAct {
		model = append(model, act)
	}
	// C08: the acknowledged sequence survives (pruned files aside): same events, once, in order
	fr, fm := flat(real), flat(model)
	if !eqInts(fr, fm) {
		// an event that the files still hold although the model pruned its file is (also) a retention fault:
		// "at most MaxFiles rotated files remain, namely the newest" (C15)
		props := []string{"C08"}
		inModel := map[int]bool{}
		for _, id := range fm {
			inModel[id] = true
		}
		for _, id := range fr {
			if !inModel[id] {
				props = []string{"C08", "C15"}
				break
			}
		}
		rep.mm(Mismatch{Props: props, What: "events present in the sink's files, oldest to newest", Path: path, Action: a, Expected: fm, Observed: fr})
		return
	}
	// C15: which file holds what (rotation points, retention, naming)
	extReal := make([][]int, 0)
	for k := 0; k < len(l.Ext); k++ {
		extReal = append(extReal, l.Ext[k])
	}
	if !eq2(l.Ts, p.Ts) || l.HasAct != hasAct || !eqInts(l.Act, act) || !eq2(extReal, p.Ext) {
		rep.mm(Mismatch{Props: []string{"C15"}, What: "distribution of events over rotated / active / foreign files", Path: path, Action: a,
			Expected: map[string]interface{}{"rotated": p.Ts, "active": p.Act, "foreign": p.Ext},
			Observed: map[string]interface{}{"rotated": l.Ts, "active_present": l.HasAct, "active": l.Act, "foreign": l.Ext}})
		return
	}
	if int(w.fs.BytesWritten) != p.Bw*Unit {
		rep.mm(Mismatch{Props: []string{"C15"}, What: "BytesWritten", Path: path, Action: a, Expected: p.Bw * Unit, Observed: w.fs.BytesWritten})
	}
	wantMode := os.FileMode(0o600)
	if cfg.Mode != 0 {
		wantMode = os.FileMode(cfg.Mode)
	}
	for name, m := range l.Modes {
		if m != wantMode {
			rep.mm(Mismatch{Props: []string{"C15"}, What: "file mode of " + name, Path: path, Action: a, Expected: wantMode.String(), Observed: m.String()})
		}
	}
}

func runEdge(rep *Report, cfg *Config, e *Edge) {
	w, err := newWorld(cfg)
	if err != nil {
		rep.mm(Mismatch{Props: []string{"HARNESS"}, What: "temp dir: " + err.Error()})
		return
	}
	defer w.close()
	for i := range e.P {
		if e.P[i].A == "write" && !w.timingOK(e.P[i].Texp) {
			w.skip = true
			break
		}
		w.apply(&e.P[i])
	}
	if !w.skip && e.A.A == "write" && !w.timingOK(e.A.Texp) {
		w.skip = true
	}
	if w.skip {
		rep.mu.Lock()
		rep.Skipped++
		rep.mu.Unlock()
		return
	}
	ok := w.apply(&e.A)
	if w.skip {
		rep.mu.Lock()
		rep.Skipped++
		rep.mu.Unlock()
		return
	}
	compare(rep, cfg, w, e.P, &e.A, &e.Proj, ok)
	rep.mu.Lock()
	rep.Calls += len(e.P) + 1
	if e.A.A == "write" && e.A.OK {
		rep.Nontrivial++
	}
	if e.A.Rotated {
		rep.Rotations++
	}
	rep.mu.Unlock()
}

func decodeLine(line string, v interface{}) error {
	var inner string
	if err := json.Unmarshal([]byte(line), &inner); err != nil {
		return err
	}
	return json.Unmarshal([]byte(inner), v)
}

// Run replays a graph export with par edges in parallel.
func Run(cfg *Config, edgesFile string, par int) (*Report, error) {
	rep := &Report{ByProp: map[string]int{}, Mismatches: []Mismatch{}}
	f, err := os.Open(edgesFile)
	if err != nil {
		return nil, err
	}
	defer f.Close()
	sc := bufio.NewScanner(f)
	sc.Buffer(make([]byte, 1<<20), 1<<28)
	ch := make(chan *Edge, 64)
	var wg sync.WaitGroup
	for i := 0; i < par; i++ {
		wg.Add(1)
		go func() {
			defer wg.Done()
			for e := range ch {
				runEdge(rep, cfg, e)
			}
		}()
	}
	for sc.Scan() {
		line := sc.Text()
		if !strings.HasPrefix(line, "\"") {
			continue
		}
		e := &Edge{}
		if err := decodeLine(line, e); err != nil {
			close(ch)
			return nil, fmt.Errorf("bad edge: %w", err)
		}
		rep.Edges++
		if len(rep.Samples) < 4 && rep.Edges%499 == 5 {
			rep.Samples = append(rep.Samples, e)
		}
		ch <- e
	}
	close(ch)
	wg.Wait()
	return rep, sc.Err()
}
