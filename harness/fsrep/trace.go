package fsrep

import (
	"bufio"
	"context"
	"encoding/json"
	"fmt"
	"math/rand"
	"os"
	"path/filepath"
	"reflect"
	"sync"
	"time"

	"github.com/hashicorp/eventlogger"
)

// TraceCfg is the configuration shared by all traces of one file (FsTrace's constants).
type TraceCfg struct {
	MaxBytes int  `json:"max_bytes"` // bytes
	MaxFiles int  `json:"max_files"`
	TOOR     bool `json:"toor"`
}

type tev map[string]interface{}

type ftrace struct {
	ID    int                    `json:"id"`
	Ev    []tev                  `json:"ev"`
	Final map[string]interface{} `json:"final"`
}

var traceHookMu sync.Mutex

// RecordTraces runs n small concurrent executions of a real FileSink (size-triggered rotation only, so that
// every decision is a function of the logged state) and writes their hook/call traces for FsTrace.tla.
func RecordTraces(cfg TraceCfg, seed int64, n int, outFile string) (int, error) {
	traceHookMu.Lock()
	defer traceHookMu.Unlock()
	f, err := os.Create(outFile)
	if err != nil {
		return 0, err
	}
	defer f.Close()
	bw := bufio.NewWriter(f)
	defer bw.Flush()
	rng := rand.New(rand.NewSource(seed))
	events := 0
	for id := 1; id <= n; id++ {
		root, err := os.MkdirTemp("", "verif-fst-")
		if err != nil {
			return 0, err
		}
		dir := filepath.Join(root, "d")
		fs := &eventlogger.FileSink{Path: dir, FileName: baseName, MaxBytes: cfg.MaxBytes, MaxFiles: cfg.MaxFiles, TimestampOnlyOnRotate: cfg.TOOR}
		var mu sync.Mutex
		var evs []tev
		logEv := func(e tev) {
			mu.Lock()
			evs = append(evs, e)
			mu.Unlock()
		}
		fsPtr := reflect.ValueOf(fs).Pointer()
		eventlogger.VerifHook = func(point string, args ...interface{}) {
			if len(args) == 0 || reflect.ValueOf(args[0]).Kind() != reflect.Ptr || reflect.ValueOf(args[0]).Pointer() != fsPtr {
				return
			}
			switch point {
			case "fs.opened":
				name := "ts"
				if args[1].(string) == baseName {
					name = "act"
				}
				logEv(tev{"e": "opened", "name": name})
			case "fs.r.closed":
				logEv(tev{"e": "rclosed"})
			case "fs.r.renamed":
				logEv(tev{"e": "renamed"})
			case "fs.r.pruned":
				logEv(tev{"e": "pruned"})
			case "fs.written":
				logEv(tev{"e": "written", "n": int(args[1].(int64))})
			case "fs.counted":
				logEv(tev{"e": "counted"})
			}
		}
		var quiet sync.RWMutex // calls hold it shared; the external rename takes it exclusively
		writers := 1 + rng.Intn(3)
		per := 2 + rng.Intn(3)
		var wg sync.WaitGroup
		for w := 1; w <= writers; w++ {
			wg.Add(1)
			go func(w int) {
				defer wg.Done()
				r := rand.New(rand.NewSource(seed*977 + int64(id)*31 + int64(w)))
				name := fmt.Sprintf("w%d", w)
				for i := 0; i < per; i++ {
					evID := w*100 + i + 1
					size := 20 + r.Intn(60)
					e := &eventlogger.Event{Type: "t", CreatedAt: time.Now(), Formatted: map[string][]byte{}}
					e.FormattedAs(eventlogger.JSONFormat, Token(evID, size))
					quiet.RLock()
					logEv(tev{"e": "inv", "w": name, "op": "write", "id": evID, "sz": size})
					_, err := fs.Process(context.Background(), e)
					logEv(tev{"e": "resp", "w": name, "ok": err == nil})
					quiet.RUnlock()
					if r.Intn(3) == 0 {
						time.Sleep(time.Duration(r.Intn(200)) * time.Microsecond)
					}
				}
			}(w)
		}
		wg.Add(1)
		go func() {
			defer wg.Done()
			r := rand.New(rand.NewSource(seed*313 + int64(id)))
			ext := 0
			for i := 0; i < 1+r.Intn(3); i++ {
				time.Sleep(time.Duration(50+r.Intn(300)) * time.Microsecond)
				if r.Intn(2) == 0 {
					quiet.Lock()
					l := List(dir, nil)
					active := baseName
					if !l.HasAct {
						active = ""
						if len(l.TsName) > 0 && !cfg.TOOR && cfg.MaxBytes > 0 {
							active = l.TsName[len(l.TsName)-1]
						}
					}
					// only the file the sink currently writes to may be renamed: it exists once the sink has opened it
					if active != "" && os.Rename(filepath.Join(dir, active), filepath.Join(dir, ExtName(ext))) == nil {
						ext++
						logEv(tev{"e": "extrename"})
					}
					quiet.Unlock()
				}
				quiet.RLock()
				logEv(tev{"e": "inv", "w": "c", "op": "reopen"})
				err := fs.Reopen()
				logEv(tev{"e": "resp", "w": "c", "ok": err == nil})
				quiet.RUnlock()
			}
		}()
		wg.Wait()
		eventlogger.VerifHook = nil
		l := List(dir, nil)
		final := map[string]interface{}{"bw": int(fs.BytesWritten)}
		ts := [][]int{}
		for _, c := range l.Ts {
			if c == nil {
				c = []int{}
			}
			ts = append(ts, c)
		}
		final["ts"] = ts
		ext := [][]int{}
		for k := 0; k < len(l.Ext); k++ {
			c := l.Ext[k]
			if c == nil {
				c = []int{}
			}
			ext = append(ext, c)
		}
		final["ext"] = ext
		if l.HasAct {
			a := l.Act
			if a == nil {
				a = []int{}
			}
			final["act"] = []interface{}{"present", a}
		} else {
			final["act"] = []interface{}{"absent"}
		}
		os.RemoveAll(root)
		b, _ := json.Marshal(ftrace{ID: id, Ev: evs, Final: final})
		bw.Write(b)
		bw.WriteByte('\n')
		events += len(evs)
	}
	return events, nil
}
