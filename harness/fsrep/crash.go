package fsrep

import (
	"bufio"
	"context"
	"fmt"
	"math/rand"
	"os"
	"os/exec"
	"path/filepath"
	"strconv"
	"strings"
	"syscall"
	"time"

	"github.com/hashicorp/eventlogger"
)

// CrashChild is the body of the child process: it writes events 1..n to a FileSink in dir and
// prints "ACK <id>" after every acknowledged event; the k-th hit of hook label kills the process.
func CrashChild(dir string, n int, maxBytes, maxFiles int, toor bool, label string, k int, seed int64) {
	hits := 0
	eventlogger.VerifHook = func(point string, args ...interface{}) {
		if point == label {
			hits++
			if hits == k {
				syscall.Kill(os.Getpid(), syscall.SIGKILL)
				select {}
			}
		}
	}
	fs := &eventlogger.FileSink{Path: dir, FileName: baseName, MaxBytes: maxBytes, MaxFiles: maxFiles, TimestampOnlyOnRotate: toor}
	rng := rand.New(rand.NewSource(seed))
	out := bufio.NewWriter(os.Stdout)
	for id := 1; id <= n; id++ {
		size := 9 + rng.Intn(192)
		e := &eventlogger.Event{Type: "t", CreatedAt: time.Now(), Formatted: map[string][]byte{}}
		e.FormattedAs(eventlogger.JSONFormat, Token(id, size))
		if _, err := fs.Process(context.Background(), e); err == nil {
			fmt.Fprintf(out, "ACK %d\n", id)
			out.Flush()
		}
		if id%7 == 0 {
			fs.Reopen()
		}
	}
	fmt.Fprintln(out, "DONE")
	out.Flush()
}

// CrashCase is one kill experiment.
type CrashCase struct {
	Label    string `json:"label"` // hook label, or "random"
	K        int    `json:"k"`
	MaxBytes int    `json:"max_bytes"`
	MaxFiles int    `json:"max_files"`
	TOOR     bool   `json:"toor"`
	Seed     int64  `json:"seed"`
	DelayUs  int    `json:"delay_us"`
}

// CrashResult of one experiment.
type CrashResult struct {
	Case    CrashCase `json:"case"`
	Killed  bool      `json:"killed"`
	Acked   int       `json:"acked"`
	Present int       `json:"present"`
	Problem string    `json:"problem,omitempty"`
}

// RunCrash spawns the child (self binary) and checks the directory it leaves behind.
func RunCrash(self string, c CrashCase) CrashResult {
	res := CrashResult{Case: c}
	root, err := os.MkdirTemp("", "verif-fsk-")
	if err != nil {
		res.Problem = "HARNESS: " + err.Error()
		return res
	}
	defer os.RemoveAll(root)
	dir := filepath.Join(root, "d")
	n := 60
	label, k := c.Label, c.K
	if label == "random" {
		label, k = "none", 0
	}
	cmd := exec.Command(self, "fs-crash-child", dir, strconv.Itoa(n), strconv.Itoa(c.MaxBytes), strconv.Itoa(c.MaxFiles), strconv.FormatBool(c.TOOR), label, strconv.Itoa(k), strconv.FormatInt(c.Seed, 10))
	stdout, _ := cmd.StdoutPipe()
	if err := cmd.Start(); err != nil {
		res.Problem = "HARNESS: " + err.Error()
		return res
	}
	if c.Label == "random" {
		go func() {
			time.Sleep(time.Duration(c.DelayUs) * time.Microsecond)
			cmd.Process.Kill()
		}()
	}
	var acked []int
	done := false
	sc := bufio.NewScanner(stdout)
	for sc.Scan() {
		line := sc.Text()
		if strings.HasPrefix(line, "ACK ") {
			id, _ := strconv.Atoi(line[4:])
			acked = append(acked, id)
		}
		if line == "DONE" {
			done = true
		}
	}
	err = cmd.Wait()
	res.Killed = !done
	res.Acked = len(acked)
	l := List(dir, nil)
	if l.Err != "" {
		res.Problem = "files hold something that is not a sequence of whole events after the kill: " + l.Err
		return res
	}
	files := append([][]int{}, l.Ts...)
	if l.HasAct {
		files = append(files, l.Act)
	}
	var all []int
	for _, f := range files {
		all = append(all, f...)
	}
	res.Present = len(all)
	// what is present is a contiguous run of ids (retention may have removed a prefix), without duplicates, in order
	for i := 1; i < len(all); i++ {
		if all[i] != all[i-1]+1 {
			res.Problem = fmt.Sprintf("events on disk are not contiguous and in order: ... %d, %d ...", all[i-1], all[i])
			return res
		}
	}
	lastAck := 0
	if len(acked) > 0 {
		lastAck = acked[len(acked)-1]
	}
	if len(all) == 0 {
		if lastAck > 0 && c.MaxFiles == 0 {
			res.Problem = fmt.Sprintf("%d events were acknowledged but none is on disk", lastAck)
		}
		return res
	}
	lastDisk := all[len(all)-1]
	if lastDisk < lastAck {
		res.Problem = fmt.Sprintf("acknowledged event %d is not on disk (newest on disk: %d)", lastAck, lastDisk)
	} else if lastDisk > lastAck+1 {
		res.Problem = fmt.Sprintf("more than the one in-flight event beyond the last acknowledgement is on disk: acked %d, on disk up to %d", lastAck, lastDisk)
	}
	if c.MaxFiles == 0 && all[0] != 1 {
		res.Problem = fmt.Sprintf("oldest event on disk is %d although nothing may be pruned", all[0])
	}
	return res
}
