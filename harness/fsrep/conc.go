package fsrep

import (
	"context"
	"fmt"
	"math/rand"
	"os"
	"path/filepath"
	"sync"
	"sync/atomic"
	"time"

	"github.com/hashicorp/eventlogger"
)

// ConcConfig describes one concurrent-writers run.
type ConcConfig struct {
	Writers  int   `json:"writers"`
	PerW     int   `json:"per_writer"`
	MaxBytes int   `json:"max_bytes"` // bytes
	MaxFiles int   `json:"max_files"`
	DurMs    int   `json:"dur_ms"`
	TOOR     bool  `json:"toor"`
	Reopens  int   `json:"reopens"`
	ExtRen   int   `json:"ext_renames"`
	Seed     int64 `json:"seed"`
}

type op struct {
	id       int
	inv, rsp int64
	ok       bool
}

// RunConc runs the writers and checks the files against the acknowledgements.
func RunConc(cc *ConcConfig) []Mismatch {
	var mms []Mismatch
	bad := func(prop, what string, exp, obs interface{}) {
		mms = append(mms, Mismatch{Props: []string{prop}, What: what, Expected: exp, Observed: obs, Path: nil, Action: nil})
	}
	root, err := os.MkdirTemp("", "verif-fsc-")
	if err != nil {
		bad("HARNESS", err.Error(), nil, nil)
		return mms
	}
	defer os.RemoveAll(root)
	dir := filepath.Join(root, "d")
	fs := &eventlogger.FileSink{Path: dir, FileName: baseName, MaxBytes: cc.MaxBytes, MaxFiles: cc.MaxFiles, TimestampOnlyOnRotate: cc.TOOR,
		MaxDuration: time.Duration(cc.DurMs) * time.Millisecond}
	var seq int64
	var mu sync.Mutex
	ops := map[int]*op{}
	sizes := map[int]int{}
	var wg sync.WaitGroup
	stop := make(chan struct{})
	for w := 0; w < cc.Writers; w++ {
		wg.Add(1)
		go func(w int) {
			defer wg.Done()
			rng := rand.New(rand.NewSource(cc.Seed + int64(w)*7919))
			for i := 0; i < cc.PerW; i++ {
				id := w*1000 + i + 1
				size := 9 + rng.Intn(192)
				e := &eventlogger.Event{Type: "t", CreatedAt: time.Now(), Formatted: map[string][]byte{}}
				e.FormattedAs(eventlogger.JSONFormat, Token(id, size))
				o := &op{id: id, inv: atomic.AddInt64(&seq, 1)}
				mu.Lock()
				ops[id] = o
				sizes[id] = size
				mu.Unlock()
				_, err := fs.Process(context.Background(), e)
				o.rsp = atomic.AddInt64(&seq, 1)
				o.ok = err == nil
				if rng.Intn(4) == 0 {
					time.Sleep(time.Duration(rng.Intn(300)) * time.Microsecond)
				}
			}
		}(w)
	}
	// controller: Reopen calls and external renames of the active file followed by Reopen
	var cwg sync.WaitGroup
	cwg.Add(1)
	extN := 0
	go func() {
		defer cwg.Done()
		rng := rand.New(rand.NewSource(cc.Seed ^ 0x5eed))
		for i := 0; i < cc.Reopens+cc.ExtRen; i++ {
			select {
			case <-stop:
				return
			case <-time.After(time.Duration(200+rng.Intn(1500)) * time.Microsecond):
			}
			if i < cc.ExtRen && cc.MaxFiles == 0 {
				l := List(dir, nil)
				active := baseName
				if !l.HasAct {
					if len(l.TsName) == 0 {
						continue
					}
					active = l.TsName[len(l.TsName)-1]
				}
				if os.Rename(filepath.Join(dir, active), filepath.Join(dir, ExtName(extN))) == nil {
					extN++
				}
			}
			fs.Reopen()
		}
	}()
	wg.Wait()
	close(stop)
	cwg.Wait()

	l := List(dir, sizes)
	if l.Err != "" {
		bad("C08", "files hold something that is not a sequence of whole events", "whole events", l.Err)
		return mms
	}
	pos := map[int][2]int{} // id -> (file index by age, offset); ext files get index -1-k
	count := map[int]int{}
	files := append([][]int{}, l.Ts...)
	if l.HasAct {
		files = append(files, l.Act)
	}
	for fi, f := range files {
		for off, id := range f {
			pos[id] = [2]int{fi, off}
			count[id]++
		}
	}
	for k, f := range l.Ext {
		for off, id := range f {
			pos[id] = [2]int{-1 - k, off}
			count[id]++
		}
	}
	var acked, present []*op
	for _, o := range ops {
		if o.ok {
			acked = append(acked, o)
			if count[o.id] == 0 {
				if cc.MaxFiles == 0 {
					bad("C08", "an acknowledged event is missing although no retention limit is configured", o.id, "absent")
				}
			} else {
				present = append(present, o)
			}
		}
		if count[o.id] > 1 {
			bad("C08", "an event is present more than once", 1, fmt.Sprintf("event %d x%d", o.id, count[o.id]))
		}
	}
	// real-time order: resp(a) < inv(b) => a is before b in the files (same name space)
	for _, a := range present {
		for _, b := range present {
			if a.rsp < b.inv {
				pa, pb := pos[a.id], pos[b.id]
				if pa[0] >= 0 && pb[0] >= 0 && (pa[0] > pb[0] || (pa[0] == pb[0] && pa[1] > pb[1])) {
					bad("C08", "events are not in acknowledgement order", fmt.Sprintf("%d before %d", a.id, b.id), fmt.Sprintf("%d at %v, %d at %v", a.id, pa, b.id, pb))
				}
				if pa[0] < 0 && pa[0] == pb[0] && pa[1] > pb[1] {
					bad("C08", "events are not in acknowledgement order inside a renamed file", fmt.Sprintf("%d before %d", a.id, b.id), "reversed")
				}
			}
		}
	}
	// retention: what is missing must not be newer than what remains
	if cc.MaxFiles > 0 {
		for _, m := range acked {
			if count[m.id] > 0 {
				continue
			}
			for _, p := range present {
				if p.rsp < m.inv {
					bad("C08", "a missing (pruned) event is newer than an event that remains: not a suffix", fmt.Sprintf("%d kept only if %d kept", p.id, m.id), "older kept, newer missing")
				}
			}
		}
	}
	if len(mms) > 8 {
		mms = mms[:8]
	}
	return mms
}
