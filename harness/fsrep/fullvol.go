package fsrep

import (
	"context"
	"fmt"
	"os"
	"os/signal"
	"path/filepath"
	"reflect"
	"syscall"

	"github.com/hashicorp/eventlogger"
)

// RunFullVolume: the sink's file sits on a volume without space (a symlink to /dev/full: opens succeed, every
// write fails with ENOSPC). FileSink.tla: WriteFail -> reopen -> retry; a retry that fails too ends in "fail":
// no acknowledgement. Then space comes back (the symlink is replaced by nothing: the sink finds its file gone,
// opens a fresh one and the retried write succeeds): the event is acknowledged and present.
func RunFullVolume() []Mismatch {
	var mms []Mismatch
	if _, err := os.Stat("/dev/full"); err != nil {
		return nil
	}
	for _, maxBytes := range []int{0, 64} {
		dir, err := os.MkdirTemp("", "vh-full-")
		if err != nil {
			return []Mismatch{{Props: []string{"HARNESS"}, What: err.Error()}}
		}
		name := baseName
		if err := os.Symlink("/dev/full", filepath.Join(dir, name)); err != nil {
			os.RemoveAll(dir)
			return []Mismatch{{Props: []string{"HARNESS"}, What: err.Error()}}
		}
		fs := &eventlogger.FileSink{Path: dir, FileName: name, MaxBytes: maxBytes, TimestampOnlyOnRotate: true}
		var acked []int
		write := func(id int) error {
			e := &eventlogger.Event{Type: "t", Formatted: map[string][]byte{}}
			e.FormattedAs(eventlogger.JSONFormat, Token(id, 24))
			_, err := fs.Process(context.Background(), e)
			if err == nil {
				acked = append(acked, id)
			}
			return err
		}
		cfg := fmt.Sprintf("full volume, MaxBytes=%d", maxBytes)
		for id := 1; id <= 4; id++ {
			if err := write(id); err == nil {
				mms = append(mms, Mismatch{Props: []string{"C08", "C13"}, What: cfg + ": Process acknowledged an event although the write and its retry failed (no space left on device)", Expected: "error", Observed: "nil error"})
			}
		}
		// space comes back: the full file is gone
		os.Remove(filepath.Join(dir, name))
		for id := 5; id <= 7; id++ {
			if err := write(id); err != nil {
				mms = append(mms, Mismatch{Props: []string{"C08"}, What: cfg + ": write after the volume has space again", Expected: "success", Observed: err.Error()})
			}
		}
		l := List(dir, nil)
		var onDisk []int
		if l.Err != "" {
			mms = append(mms, Mismatch{Props: []string{"C08"}, What: cfg + ": directory does not parse as whole events", Expected: "whole events", Observed: l.Err})
		}
		for _, f := range l.Ts {
			onDisk = append(onDisk, f...)
		}
		onDisk = append(onDisk, l.Act...)
		if len(acked) == 0 {
			acked = []int{}
		}
		if len(onDisk) == 0 {
			onDisk = []int{}
		}
		if !reflect.DeepEqual(acked, onDisk) {
			mms = append(mms, Mismatch{Props: []string{"C08"}, What: cfg + ": events in the files, oldest to newest, vs acknowledged events", Expected: acked, Observed: onDisk})
		}
		os.RemoveAll(dir)
	}
	return mms
}

// RunDirRemoved: the sink's directory (or a parent of it) disappears while the sink is alive - a clean-up job, a log
// directory moved aside. The directory is created on demand: the next time the sink has to create a file (Reopen,
// rotation) it creates the directory again and carries on.
func RunDirRemoved() []Mismatch {
	var mms []Mismatch
	for _, sc := range []struct {
		name     string
		maxBytes int
		toor     bool
		viaOpen  string // reopen | rotate
	}{{"reopen after rm -r", 0, false, "reopen"}, {"reopen after rm -r, plain name", 0, true, "reopen"}, {"size rotation after rm -r", 40, false, "rotate"}} {
		// (with TimestampOnlyOnRotate a size rotation renames the active file, which is gone: that write honestly fails; not demanded)
		root, err := os.MkdirTemp("", "vh-dir-")
		if err != nil {
			return []Mismatch{{Props: []string{"HARNESS"}, What: err.Error()}}
		}
		dir := filepath.Join(root, "logs", "audit")
		fs := &eventlogger.FileSink{Path: dir, FileName: baseName, MaxBytes: sc.maxBytes, TimestampOnlyOnRotate: sc.toor}
		write := func(id int) error {
			e := &eventlogger.Event{Type: "t", Formatted: map[string][]byte{}}
			e.FormattedAs(eventlogger.JSONFormat, Token(id, 24))
			_, err := fs.Process(context.Background(), e)
			return err
		}
		if err := write(1); err != nil {
			mms = append(mms, Mismatch{Props: []string{"C15"}, What: sc.name + ": first write (directory created on demand)", Expected: "success", Observed: err.Error()})
			os.RemoveAll(root)
			continue
		}
		write(2) // 48 bytes: the next write finds the size limit reached
		os.RemoveAll(filepath.Join(root, "logs"))
		if sc.viaOpen == "reopen" {
			if err := fs.Reopen(); err != nil {
				mms = append(mms, Mismatch{Props: []string{"C15"}, What: sc.name + ": Reopen after the directory was removed must create it again", Expected: "success", Observed: err.Error()})
			}
		}
		if err := write(3); err != nil {
			mms = append(mms, Mismatch{Props: []string{"C15", "C08"}, What: sc.name + ": write after the directory was removed", Expected: "success", Observed: err.Error()})
		} else {
			l := List(dir, nil)
			found := false
			for _, f := range append(append([][]int{}, l.Ts...), l.Act) {
				for _, id := range f {
					if id == 3 {
						found = true
					}
				}
			}
			if !found {
				mms = append(mms, Mismatch{Props: []string{"C08"}, What: sc.name + ": event acknowledged after the directory was recreated is not in the files", Expected: "event 3 present", Observed: fmt.Sprint(l.Ts, l.Act, l.Err)})
			}
		}
		os.RemoveAll(root)
	}
	return mms
}

// RunWriteFault: a write fails (file size limit reached: EFBIG, nothing written) on a sink whose file already held
// acknowledged events before this sink (re)opened it - after a Reopen, or a restart of the process. FileSink.tla:
// WriteFail -> reopen -> WrRetry; whatever the recovery does, the files keep every acknowledged event, once, in order,
// and nothing else. The limit is process-wide for the duration of one Process call; SIGXFSZ is ignored.
func RunWriteFault() []Mismatch {
	var mms []Mismatch
	signal.Ignore(syscall.SIGXFSZ)
	var old syscall.Rlimit
	if err := syscall.Getrlimit(syscall.RLIMIT_FSIZE, &old); err != nil {
		return nil
	}
	for _, how := range []string{"reopen", "restart"} {
		dir, err := os.MkdirTemp("", "vh-fault-")
		if err != nil {
			return []Mismatch{{Props: []string{"HARNESS"}, What: err.Error()}}
		}
		mk := func() *eventlogger.FileSink {
			return &eventlogger.FileSink{Path: dir, FileName: baseName, TimestampOnlyOnRotate: true}
		}
		fs := mk()
		var acked []int
		write := func(id int) error {
			e := &eventlogger.Event{Type: "t", Formatted: map[string][]byte{}}
			e.FormattedAs(eventlogger.JSONFormat, Token(id, 30))
			_, err := fs.Process(context.Background(), e)
			if err == nil {
				acked = append(acked, id)
			}
			return err
		}
		write(1)
		write(2)
		if how == "reopen" {
			fs.Reopen()
		} else {
			fs = mk() // a new process appending to the existing log
		}
		write(3)
		st, err := os.Stat(filepath.Join(dir, baseName))
		if err != nil {
			os.RemoveAll(dir)
			continue
		}
		// the file cannot grow: the next write (and its retry) fails without writing anything
		syscall.Setrlimit(syscall.RLIMIT_FSIZE, &syscall.Rlimit{Cur: uint64(st.Size()), Max: old.Max})
		err4 := write(4)
		syscall.Setrlimit(syscall.RLIMIT_FSIZE, &old)
		write(5)
		l := List(dir, nil)
		var onDisk []int
		for _, f := range l.Ts {
			onDisk = append(onDisk, f...)
		}
		onDisk = append(onDisk, l.Act...)
		cfg := "write fault after " + how
		if l.Err != "" {
			mms = append(mms, Mismatch{Props: []string{"C08"}, What: cfg + ": the files do not parse as whole events (torn / cut)", Expected: "whole events", Observed: l.Err})
		} else if !reflect.DeepEqual(acked, onDisk) {
			mms = append(mms, Mismatch{Props: []string{"C08"}, What: cfg + ": events in the files vs acknowledged events (write 4 under the size limit returned: " + fmt.Sprint(err4) + ")", Expected: acked, Observed: onDisk})
		}
		os.RemoveAll(dir)
	}
	return mms
}
