package fsrep

import (
	"context"
	"fmt"
	"os"
	"path/filepath"
	"reflect"

	"github.com/hashicorp/eventlogger"
)

// RunFullVolume: the sink's file sits on a volume without space (a symlink to /dev/full: opens succeed, every
// write fails with ENOSPC). FileSink.tla: WriteFail -> reopen -> retry; a retry that fails too ends in "fail":
// no acknowledgement. Then space comes back (the symlink is replaced by nothing: the sink finds its file gone,
// opens a fresh one and the retried write succeeds): the event is acknowledged and present.
func RunFullVolume() []Mismatch {
	var mms []Mismatch
	if _, err := os.Stat("/dev/full"); err != nil {
		return nil
	}
	for _, maxBytes := range []int{0, 64} {
		dir, err := os.MkdirTemp("", "vh-full-")
		if err != nil {
			return []Mismatch{{Props: []string{"HARNESS"}, What: err.Error()}}
		}
		name := "sink.log"
		if err := os.Symlink("/dev/full", filepath.Join(dir, name)); err != nil {
			os.RemoveAll(dir)
			return []Mismatch{{Props: []string{"HARNESS"}, What: err.Error()}}
		}
		fs := &eventlogger.FileSink{Path: dir, FileName: name, MaxBytes: maxBytes, TimestampOnlyOnRotate: true}
		var acked []int
		write := func(id int) error {
			e := &eventlogger.Event{Type: "t", Formatted: map[string][]byte{}}
			e.FormattedAs(eventlogger.JSONFormat, Token(id, 24))
			_, err := fs.Process(context.Background(), e)
			if err == nil {
				acked = append(acked, id)
			}
			return err
		}
		cfg := fmt.Sprintf("full volume, MaxBytes=%d", maxBytes)
		for id := 1; id <= 4; id++ {
			if err := write(id); err == nil {
				mms = append(mms, Mismatch{Props: []string{"C08", "C13"}, What: cfg + ": Process acknowledged an event although the write and its retry failed (no space left on device)", Expected: "error", Observed: "nil error"})
			}
		}
		// space comes back: the full file is gone
		os.Remove(filepath.Join(dir, name))
		for id := 5; id <= 7; id++ {
			if err := write(id); err != nil {
				mms = append(mms, Mismatch{Props: []string{"C08"}, What: cfg + ": write after the volume has space again", Expected: "success", Observed: err.Error()})
			}
		}
		l := List(dir, nil)
		var onDisk []int
		if l.Err != "" {
			mms = append(mms, Mismatch{Props: []string{"C08"}, What: cfg + ": directory does not parse as whole events", Expected: "whole events", Observed: l.Err})
		}
		for _, f := range l.Ts {
			onDisk = append(onDisk, f...)
		}
		onDisk = append(onDisk, l.Act...)
		if len(acked) == 0 {
			acked = []int{}
		}
		if len(onDisk) == 0 {
			onDisk = []int{}
		}
		if !reflect.DeepEqual(acked, onDisk) {
			mms = append(mms, Mismatch{Props: []string{"C08"}, What: cfg + ": events in the files, oldest to newest, vs acknowledged events", Expected: acked, Observed: onDisk})
		}
		os.RemoveAll(dir)
	}
	return mms
}
