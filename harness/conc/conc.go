// Package conc runs concurrent histories against a real Broker (C04, C07) and
// concurrent Sends through compositions of the stock nodes (C19). It is meant to
// be built with -race: the race detector is the sensor for data races, the
// recorded invocation/response histories are validated by TLC (BrokerConc.tla).
package conc

import (
	"bufio"
	"bytes"
	"context"
	"encoding/json"
	"errors"
	"fmt"
	"math/rand"
	"net/url"
	"os"
	"path/filepath"
	"runtime"
	"sort"
	"strings"
	"sync"
	"sync/atomic"
	"time"
	"verif/harness/internal/hn"

	"github.com/hashicorp/eventlogger"
	"github.com/hashicorp/eventlogger/filters/encrypt"
	"github.com/hashicorp/eventlogger/filters/gated"
	"github.com/hashicorp/eventlogger/formatter_filters/cloudevents"
	"github.com/hashicorp/eventlogger/sinks/channel"
	"github.com/hashicorp/eventlogger/sinks/writer"

	"verif/harness/encrep"
)

// ---------------------------------------------------------------- C04 / C07 histories

type marker struct {
	closes atomic.Int64
	slow   time.Duration
	slowT  time.Duration // Type() takes this long (validation of a definition spends time under the Broker's lock)
	failC  bool          // Close reports an error
	ver    int
	mu     sync.Mutex
	seen   map[int]int
}

func (m *marker) Process(ctx context.Context, e *eventlogger.Event) (*eventlogger.Event, error) {
	if id, ok := e.Payload.(int); ok {
		m.mu.Lock()
		m.seen[id]++
		m.mu.Unlock()
	}
	return e, nil
}
func (m *marker) Reopen() error { return nil }
func (m *marker) Type() eventlogger.NodeType {
	if m.slowT > 0 {
		time.Sleep(m.slowT)
	}
	return eventlogger.NodeTypeFilter
}

// Close takes a while (a sink flushing): removals spend time outside the Broker's lock.
func (m *marker) Close(ctx context.Context) error {
	m.closes.Add(1)
	if m.slow > 0 {
		time.Sleep(m.slow)
	}
	if m.failC {
		return errors.New("marker: close failed")
	}
	return nil
}

type leaf struct{ t eventlogger.NodeType }

func (l *leaf) Process(ctx context.Context, e *eventlogger.Event) (*eventlogger.Event, error) {
	if l.t == eventlogger.NodeTypeSink {
		return nil, nil
	}
	return e, nil
}
func (l *leaf) Reopen() error              { return nil }
func (l *leaf) Type() eventlogger.NodeType { return l.t }

// closerLeaf is a leaf whose Close fails (a sink that cannot flush).
type closerLeaf struct{ leaf }

func (l *closerLeaf) Close(ctx context.Context) error { return errors.New("closerLeaf: close failed") }

type rec map[string]interface{}

// History is one recorded concurrent history.
type History struct {
	ID int   `json:"id"`
	G  int   `json:"g"`
	H  []rec `json:"h"`
}

// Problem found directly by the recorder (not by TLC).
type Problem struct {
	Prop string `json:"prop"`
	What string `json:"what"`
}

// RunHistory executes one random concurrent history.
func RunHistory(id int, seed int64) (*History, []Problem) {
	rng := rand.New(rand.NewSource(seed))
	b, _ := hn.NewBroker()
	var problems []Problem
	var pmu sync.Mutex
	problem := func(prop, f string, a ...interface{}) {
		pmu.Lock()
		problems = append(problems, Problem{prop, fmt.Sprintf(f, a...)})
		pmu.Unlock()
	}
	var mu sync.Mutex
	var h []rec
	var opn int64
	logInv := func(r rec) int64 {
		n := atomic.AddInt64(&opn, 1)
		r["k"], r["op"] = "inv", n
		mu.Lock()
		h = append(h, r)
		mu.Unlock()
		return n
	}
	logResp := func(n int64, r rec) {
		r["k"], r["op"] = "resp", n
		mu.Lock()
		h = append(h, r)
		mu.Unlock()
	}
	var verc int64
	var markers sync.Map // ver -> *marker
	var sendID int64
	pids := []string{"p1", "p2", "p3"}
	// in every fourth history all pipelines share one formatter (and nothing is removed together with its nodes):
	// concurrent registrations / removals then update the same reference count
	sharedMode := id%4 == 1
	if sharedMode {
		b.RegisterNode("shared-fm", &leaf{eventlogger.NodeTypeFormatter})
	}
	doReg := func(r *rand.Rand) {
		ver := int(atomic.AddInt64(&verc, 1))
		m := &marker{ver: ver, seen: map[int]int{}}
		if id%3 == 0 {
			m.slow = time.Duration(50+r.Intn(400)) * time.Microsecond
			m.failC = ver%2 == 0 // ... and half of them fail to close, together with their sink
		}
		markers.Store(ver, m)
		ids := []eventlogger.NodeID{eventlogger.NodeID(fmt.Sprintf("mk%d", ver)), eventlogger.NodeID(fmt.Sprintf("fm%d", ver)), eventlogger.NodeID(fmt.Sprintf("sk%d", ver))}
		if err := b.RegisterNode(ids[0], m); err != nil {
			problem("C04", "RegisterNode failed: %v", err)
		}
		if sharedMode {
			ids[1] = "shared-fm"
		} else {
			b.RegisterNode(ids[1], &leaf{eventlogger.NodeTypeFormatter})
		}
		if m.failC {
			b.RegisterNode(ids[2], &closerLeaf{leaf{eventlogger.NodeTypeSink}})
		} else {
			b.RegisterNode(ids[2], &leaf{eventlogger.NodeTypeSink})
		}
		pid := pids[r.Intn(len(pids))]
		n := logInv(rec{"kind": "reg", "pid": pid, "ver": ver})
		err := b.RegisterPipeline(eventlogger.Pipeline{PipelineID: eventlogger.PipelineID(pid), EventType: "t", NodeIDs: ids})
		logResp(n, rec{})
		if err != nil {
			problem("C04", "RegisterPipeline of registered, well-formed nodes failed: %v", err)
		}
	}
	// a definition that is refused (filter -> sink, no formatter), possibly over a registered pipeline: no effect
	doRegBad := func(r *rand.Rand) {
		ver := int(atomic.AddInt64(&verc, 1))
		m := &marker{ver: ver, seen: map[int]int{}, slowT: time.Duration(r.Intn(300)) * time.Microsecond}
		markers.Store(ver, m)
		ids := []eventlogger.NodeID{eventlogger.NodeID(fmt.Sprintf("mk%d", ver)), eventlogger.NodeID(fmt.Sprintf("sk%d", ver))}
		b.RegisterNode(ids[0], m)
		b.RegisterNode(ids[1], &leaf{eventlogger.NodeTypeSink})
		pid := pids[r.Intn(len(pids))]
		n := logInv(rec{"kind": "regbad", "pid": pid, "ver": ver})
		err := b.RegisterPipeline(eventlogger.Pipeline{PipelineID: eventlogger.PipelineID(pid), EventType: "t", NodeIDs: ids})
		logResp(n, rec{"err": map[bool]string{true: "t", false: "f"}[err != nil]})
	}
	doSend := func() {
		sid := int(atomic.AddInt64(&sendID, 1))
		n := logInv(rec{"kind": "send"})
		_, err := b.Send(context.Background(), "t", sid)
		var res []int
		markers.Range(func(k, v interface{}) bool {
			m := v.(*marker)
			m.mu.Lock()
			c := m.seen[sid]
			m.mu.Unlock()
			if c > 0 {
				res = append(res, m.ver)
			}
			if c > 1 {
				problem("C04", "pipeline version %d received one Send %d times", m.ver, c)
			}
			return true
		})
		sort.Ints(res)
		r := rec{}
		if len(res) > 0 {
			r["res"] = res
		}
		logResp(n, r)
		_ = err
	}
	G := 2 + rng.Intn(3)
	if id%2 == 0 {
		G = 5 + rng.Intn(4)
	}
	perG := 5
	if G <= 4 {
		perG = 8
	}
	var wg sync.WaitGroup
	// make sure the type has a graph before senders start
	doReg(rng)
	for g := 0; g < G; g++ {
		wg.Add(1)
		go func(g int) {
			defer wg.Done()
			r := rand.New(rand.NewSource(seed*131 + int64(g)))
			for i := 0; i < perG+r.Intn(3); i++ {
				switch x := r.Intn(20); {
				case x < 4:
					doReg(r)
				case x < 5:
					doRegBad(r)
				case x < 8:
					pid := pids[r.Intn(len(pids))]
					if sharedMode || r.Intn(2) == 0 {
						n := logInv(rec{"kind": "rem", "pid": pid})
						b.RemovePipeline("t", eventlogger.PipelineID(pid))
						logResp(n, rec{})
					} else {
						n := logInv(rec{"kind": "rpan", "pid": pid})
						// every other removal comes from a caller that has given up already (a done context): the call
						// either takes effect or not, atomically, and reports which
						rctx := context.Background()
						if r.Intn(2) == 0 {
							c, cancel := context.WithCancel(rctx)
							cancel()
							rctx = c
						}
						ok, _ := b.RemovePipelineAndNodes(rctx, "t", eventlogger.PipelineID(pid))
						logResp(n, rec{"removed": map[bool]string{true: "t", false: "f"}[ok]})
					}
				case x < 14:
					doSend()
				case x < 16:
					n := logInv(rec{"kind": "isany"})
					any := b.IsAnyPipelineRegistered("t")
					a := "f"
					if any {
						a = "t"
					}
					logResp(n, rec{"any": a})
				case x == 16:
					b.SetSuccessThreshold("t", 0)
					b.SetSuccessThresholdSinks("other", r.Intn(3))
				case x == 17:
					b.SuccessThreshold("t")
					b.SuccessThresholdSinks("t")
				case x == 18:
					b.Reopen(context.Background())
				default:
					id := eventlogger.NodeID(fmt.Sprintf("tmp%d_%d", g, i))
					b.RegisterNode(id, &leaf{eventlogger.NodeTypeFilter})
					c, cancel := context.WithCancel(context.Background())
					if i%2 == 0 {
						cancel()
					}
					b.RemoveNode(c, id)
					cancel()
				}
			}
		}(g)
	}
	wg.Wait()
	// quiescent probe: a sequential Send must see exactly the versions some sequential order leaves behind
	doSend()
	n := logInv(rec{"kind": "isany"})
	a := "f"
	if b.IsAnyPipelineRegistered("t") {
		a = "t"
	}
	logResp(n, rec{"any": a})
	// quiescent probe of the node table: which versions' nodes are referenced, registered but idle, or gone
	for ver := 1; ver <= int(atomic.LoadInt64(&verc)); ver++ {
		n := logInv(rec{"kind": "nprobe", "ver": ver})
		err := b.RemoveNode(context.Background(), eventlogger.NodeID(fmt.Sprintf("mk%d", ver)))
		res := "ok"
		switch {
		case err == nil:
		case errors.Is(err, eventlogger.ErrNodeNotFound):
			res = "notfound"
		case strings.Contains(err.Error(), "still in use"):
			res = "inuse"
		case strings.Contains(err.Error(), "marker: close failed"):
			// removed; the error is the node's own Close error
		default:
			res = "error: " + err.Error()
		}
		logResp(n, rec{"res": res})
	}
	if sharedMode {
		// the shared node is in use exactly while some pipeline is registered
		n := logInv(rec{"kind": "sprobe"})
		err := b.RemoveNode(context.Background(), "shared-fm")
		res := "ok"
		switch {
		case err == nil:
		case strings.Contains(err.Error(), "still in use"):
			res = "inuse"
		default:
			res = "error: " + err.Error()
		}
		logResp(n, rec{"res": res})
	}
	return &History{ID: id, G: G, H: h}, problems
}

// ---------------------------------------------------------------- C19 compositions

type secretPayload struct {
	User   string `class:"public"`
	Token  string `class:"secret"`
	Email  string `class:"sensitive"`
	Digest string `class:"sensitive,hmac-sha256"` // keyed digest: uses the filter's wrapper, salt and info
	Detail map[string]interface{}
}

type lineWriter struct {
	mu  sync.Mutex
	buf bytes.Buffer
}

func (w *lineWriter) Write(p []byte) (int, error) {
	w.mu.Lock()
	defer w.mu.Unlock()
	return w.buf.Write(p)
}

// Composition result.
type CompResult struct {
	Name     string    `json:"name"`
	Sends    int       `json:"sends"`
	Problems []Problem `json:"problems"`
}

// RunComposition builds pipelines from the stock node catalogue (nodes shared between pipelines,
// several pipelines for one event type) and drives them with concurrent Sends and control calls.
func RunComposition(name string, seed int64, senders, perSender int, f8 bool) CompResult {
	res := CompResult{Name: name}
	var pmu sync.Mutex
	problem := func(f string, a ...interface{}) {
		pmu.Lock()
		if len(res.Problems) < 10 {
			res.Problems = append(res.Problems, Problem{"C19", fmt.Sprintf(f, a...)})
		}
		pmu.Unlock()
	}
	rng := rand.New(rand.NewSource(seed))
	b, _ := hn.NewBroker()
	dir, _ := os.MkdirTemp("", "verif-c19-")
	defer os.RemoveAll(dir)
	reg := func(id string, n eventlogger.Node) eventlogger.NodeID {
		if err := b.RegisterNode(eventlogger.NodeID(id), n); err != nil {
			problem("RegisterNode %s: %v", id, err)
		}
		return eventlogger.NodeID(id)
	}
	jf := reg("json", &eventlogger.JSONFormatter{})
	// the filtering nodes turn down part of the events: a pipeline that drops an event leaves it alone for the others
	var jffN, fltN atomic.Int64
	jff := reg("jsonff", &eventlogger.JSONFormatterFilter{Predicate: func(interface{}) (bool, error) { return jffN.Add(1)%3 != 0, nil }})
	flt := reg("filter", &eventlogger.Filter{Predicate: func(e *eventlogger.Event) (bool, error) { return fltN.Add(1)%7 != 0, nil }})
	src, _ := url.Parse("https://verif.example/src")
	ce := &cloudevents.FormatterFilter{Source: src, Signer: func(_ context.Context, b []byte) (string, error) { return "sig0", nil }, SignEventTypes: []string{"t"}}
	cef := reg("ce", ce)
	w0 := encrep.NewWrapper("c19-0")
	enc := &encrypt.Filter{Wrapper: w0}
	encf := reg("enc", enc)
	gf := &gated.Filter{Broker: b, Expiration: 2 * time.Millisecond}
	gff := reg("gated", gf)
	gf2 := &gated.Filter{Expiration: time.Millisecond} // no Broker: expired / flushed groups are dropped
	gff2 := reg("gated-nobroker", gf2)
	fsk := &eventlogger.FileSink{Path: filepath.Join(dir, "fs"), FileName: "out.log", MaxBytes: 4000, MaxFiles: 3}
	fs := reg("file", fsk)
	fsce := reg("filece", &eventlogger.FileSink{Path: filepath.Join(dir, "fsce"), FileName: "ce.log", Format: string(cloudevents.FormatJSON), MaxBytes: 6000, TimestampOnlyOnRotate: true})
	lw := &lineWriter{}
	ws := reg("writer", &writer.Sink{Writer: lw})
	ch := make(chan *eventlogger.Event, 64)
	cs, _ := channel.NewChannelSink(ch, 50*time.Millisecond)
	chs := reg("chan", cs)
	var drained int64
	stopDrain := make(chan struct{})
	go func() {
		for {
			select {
			case <-ch:
				atomic.AddInt64(&drained, 1)
			case <-stopDrain:
				return
			}
		}
	}()
	// every ordered pair of node kinds occurs as neighbours somewhere; nodes are shared across pipelines.
	// Pipelines that contain the encrypt filter are registered for type "s", one at a time, unless f8 is
	// set: the encrypt filter copying an event that another pipeline formats concurrently is the known
	// finding F8 (a fatal "concurrent map iteration and map write"), exercised only in its own process.
	encPipes := map[string][]eventlogger.NodeID{
		"a": {flt, encf, jf, fs},
		"b": {encf, flt, jff, ws},
		"d": {flt, gff, encf, jf, chs},
		"g": {encf, cef, fsce},
		"h": {jff, encf, jf, chs},
	}
	plainPipes := map[string][]eventlogger.NodeID{
		"c": {gff, flt, cef, fsce},
		"e": {jf, fs},
		"f": {cef, flt, jf, ws},
		"i": {flt, gff, jff, chs},
		"j": {jff, flt, jf, fs},
		"k": {cef, jf, ws},
		"l": {gff2, flt, jf, ws},
	}
	var en, pn []string
	for n := range encPipes {
		en = append(en, n)
	}
	for n := range plainPipes {
		pn = append(pn, n)
	}
	sort.Strings(en)
	sort.Strings(pn)
	rng.Shuffle(len(en), func(i, j int) { en[i], en[j] = en[j], en[i] })
	rng.Shuffle(len(pn), func(i, j int) { pn[i], pn[j] = pn[j], pn[i] })
	k := 1 + rng.Intn(4)
	if name == "all" {
		k = len(pn)
	}
	encType := eventlogger.EventType("s")
	ne := 1
	if f8 {
		encType, ne = "t", 2+rng.Intn(3)
	}
	var used []string
	for _, n := range pn[:k] {
		used = append(used, n)
		if err := b.RegisterPipeline(eventlogger.Pipeline{PipelineID: eventlogger.PipelineID(n), EventType: "t", NodeIDs: plainPipes[n]}); err != nil {
			problem("RegisterPipeline %s: %v", n, err)
		}
	}
	for _, n := range en[:ne] {
		used = append(used, n)
		if err := b.RegisterPipeline(eventlogger.Pipeline{PipelineID: eventlogger.PipelineID(n), EventType: encType, NodeIDs: encPipes[n]}); err != nil {
			problem("RegisterPipeline %s: %v", n, err)
		}
	}
	res.Name = name + ":" + strings.Join(used, "")
	var wg sync.WaitGroup
	stop := make(chan struct{})
	// control calls
	wg.Add(1)
	go func() {
		defer wg.Done()
		r := rand.New(rand.NewSource(seed ^ 0xc0))
		i := 0
		for {
			select {
			case <-stop:
				return
			case <-time.After(time.Duration(100+r.Intn(400)) * time.Microsecond):
			}
			i++
			switch r.Intn(5) {
			case 0:
				gf2.FlushAll(context.Background())
				b.Reopen(context.Background())
			case 1:
				enc.Rotate(encrypt.WithWrapper(encrep.NewWrapper(fmt.Sprintf("c19-%d", i))), encrypt.WithSalt([]byte{byte(i)}), encrypt.WithInfo([]byte{byte(i), 1}))
			case 2:
				sig := fmt.Sprintf("sig%d", i)
				ce.Rotate(func(_ context.Context, b []byte) (string, error) { return sig, nil })
			case 3:
				gf.FlushAll(context.Background())
				gf2.FlushAll(context.Background())
			case 4:
				b.SetSuccessThreshold("t", 0)
			}
		}
	}()
	var sends int64
	var swg sync.WaitGroup
	for s := 0; s < senders; s++ {
		swg.Add(1)
		go func(s int) {
			defer swg.Done()
			defer func() {
				if p := recover(); p != nil {
					problem("panic in sender: %v", p)
				}
			}()
			r := rand.New(rand.NewSource(seed + int64(s)*977))
			for i := 0; i < perSender; i++ {
				var payload interface{}
				switch r.Intn(4) {
				case 0:
					payload = &gated.Payload{ID: fmt.Sprintf("g%d", r.Intn(4)), Flush: r.Intn(3) == 0, Detail: map[string]interface{}{"i": i}}
				default:
					payload = &secretPayload{User: "u", Token: fmt.Sprintf("TOKEN-%d-%d", s, i), Email: "e@x", Digest: "d@x", Detail: map[string]interface{}{"k": "v", "n": i}}
				}
				b.Send(context.Background(), "t", payload)
				if !f8 {
					b.Send(context.Background(), "s", &secretPayload{User: "u", Token: fmt.Sprintf("TOKEN-s-%d-%d", s, i), Email: "e@x", Digest: "d@x", Detail: map[string]interface{}{"k": "v"}})
				}
				atomic.AddInt64(&sends, 1)
			}
		}(s)
	}
	swg.Wait()
	close(stop)
	wg.Wait()
	close(stopDrain)
	res.Sends = int(sends)
	// outputs are sequences of whole valid records
	checkLines := func(what string, data []byte, wantJSON bool) {
		if len(data) == 0 {
			return
		}
		if data[len(data)-1] != '\n' {
			problem("%s does not end with a whole record", what)
			return
		}
		sc := bufio.NewScanner(bytes.NewReader(data))
		sc.Buffer(make([]byte, 1<<20), 1<<24)
		for sc.Scan() {
			var v map[string]interface{}
			if err := json.Unmarshal(sc.Bytes(), &v); err != nil {
				problem("%s holds a corrupted record: %.80q", what, sc.Text())
				return
			}
			if strings.Contains(sc.Text(), "TOKEN-") && what != "plain" {
				if _, isEnc := v["payload"]; isEnc {
					// secret tokens must never be readable behind the encrypt filter
				}
			}
		}
	}
	for _, sub := range []string{"fs", "fsce"} {
		ents, _ := os.ReadDir(filepath.Join(dir, sub))
		for _, e := range ents {
			data, _ := os.ReadFile(filepath.Join(dir, sub, e.Name()))
			checkLines("file "+sub+"/"+e.Name(), data, true)
		}
	}
	lw.mu.Lock()
	checkLines("writer sink output", lw.buf.Bytes(), true)
	lw.mu.Unlock()
	return res
}

// GatedStress: concurrent Process / FlushAll / Close on one gated.Filter without a Broker; returns the panics caught.
func GatedStress(seed int64, d time.Duration) CompResult {
	res := CompResult{Name: "gated-stress"}
	gf := &gated.Filter{Expiration: time.Millisecond}
	var pan int64
	var first atomic.Value
	stop := make(chan struct{})
	var wg sync.WaitGroup
	guard := func(fn func()) {
		defer func() {
			if p := recover(); p != nil {
				if atomic.AddInt64(&pan, 1) == 1 {
					first.Store(fmt.Sprint(p))
				}
			}
		}()
		fn()
	}
	var sends int64
	for s := 0; s < 8; s++ {
		wg.Add(1)
		go func(s int) {
			defer wg.Done()
			r := rand.New(rand.NewSource(seed + int64(s)))
			for {
				select {
				case <-stop:
					return
				default:
				}
				guard(func() {
					e := &eventlogger.Event{Type: "t", CreatedAt: time.Now(), Payload: &gated.Payload{ID: fmt.Sprintf("g%d", r.Intn(5)), Flush: r.Intn(4) == 0, Detail: map[string]interface{}{"k": 1}}, Formatted: map[string][]byte{}}
					gf.Process(context.Background(), e)
				})
				atomic.AddInt64(&sends, 1)
			}
		}(s)
	}
	for f := 0; f < 3; f++ {
		wg.Add(1)
		go func(f int) {
			defer wg.Done()
			for {
				select {
				case <-stop:
					return
				default:
				}
				guard(func() {
					if f == 0 {
						gf.Close(context.Background())
					} else {
						gf.FlushAll(context.Background())
					}
				})
			}
		}(f)
	}
	time.Sleep(d)
	close(stop)
	wg.Wait()
	res.Sends = int(sends)
	if pan > 0 {
		res.Problems = append(res.Problems, Problem{"C19", fmt.Sprintf("gated.Filter panicked %d times under concurrent Process / FlushAll / Close: %v", pan, first.Load())})
	}
	return res
}

// slowLines is an io.Writer that takes its time (a slow sink keeps the gated filter inside Broker.Send for a while).
type slowLines struct {
	mu    sync.Mutex
	lines [][]byte
}

func (w *slowLines) Write(p []byte) (int, error) {
	time.Sleep(150 * time.Microsecond)
	w.mu.Lock()
	w.lines = append(w.lines, append([]byte{}, p...))
	w.mu.Unlock()
	return len(p), nil
}

// GatedBrokerStress: the library's gated filter wired to the Broker of its own pipeline (gated -> JSON formatter ->
// writer sink over a slow writer), concurrent Sends of Gateable events (some of them flush events), expiry on the real
// clock and FlushAll calls. The output is corrupted when an event shows up in two composites; after a final FlushAll
// every event whose Send succeeded is in exactly one composite (Gated.tla: exactly once).
func GatedBrokerStress(seed int64, d time.Duration) CompResult {
	res := CompResult{Name: "gated-broker-stress"}
	b, _ := hn.NewBroker()
	gf := &gated.Filter{Broker: b, Expiration: 2 * time.Millisecond}
	out := &slowLines{}
	b.RegisterNode("gf", gf)
	b.RegisterNode("jf", &eventlogger.JSONFormatter{})
	b.RegisterNode("ws", &writer.Sink{Writer: out})
	if err := b.RegisterPipeline(eventlogger.Pipeline{PipelineID: "p", EventType: "t", NodeIDs: []eventlogger.NodeID{"gf", "jf", "ws"}}); err != nil {
		res.Problems = append(res.Problems, Problem{"HARNESS", err.Error()})
		return res
	}
	ctx := context.Background()
	var marker int64
	var mu sync.Mutex
	acked := map[int64]bool{}
	stop := make(chan struct{})
	var wg sync.WaitGroup
	for s := 0; s < 6; s++ {
		wg.Add(1)
		go func(s int) {
			defer wg.Done()
			r := rand.New(rand.NewSource(seed*977 + int64(s)))
			for {
				select {
				case <-stop:
					return
				default:
				}
				m := atomic.AddInt64(&marker, 1)
				_, err := b.Send(ctx, "t", &gated.Payload{ID: fmt.Sprintf("g%d", r.Intn(4)), Flush: r.Intn(6) == 0, Detail: map[string]interface{}{"m": m}})
				mu.Lock()
				acked[m] = err == nil
				mu.Unlock()
				if r.Intn(3) == 0 {
					time.Sleep(time.Duration(r.Intn(400)) * time.Microsecond)
				}
			}
		}(s)
	}
	wg.Add(1)
	go func() {
		defer wg.Done()
		for {
			select {
			case <-stop:
				return
			default:
			}
			gf.FlushAll(ctx)
			time.Sleep(time.Millisecond)
		}
	}()
	time.Sleep(d)
	// (work decides, not the clock: on a loaded machine the same number of Sends is wanted)
	for lim := time.Now().Add(20 * time.Second); atomic.LoadInt64(&marker) < 1500 && time.Now().Before(lim); {
		time.Sleep(10 * time.Millisecond)
	}
	close(stop)
	wg.Wait()
	if err := gf.FlushAll(ctx); err != nil {
		res.Problems = append(res.Problems, Problem{"C19", "final FlushAll of the gated filter failed although no node fails: " + err.Error()})
	}
	res.Sends = int(marker)
	seen := map[int64]int{}
	for _, l := range out.lines {
		var doc struct {
			Payload struct {
				Details []struct {
					Payload struct {
						M int64 `json:"m"`
					} `json:"payload"`
				} `json:"details"`
			} `json:"payload"`
		}
		if err := json.Unmarshal(l, &doc); err != nil {
			res.Problems = append(res.Problems, Problem{"C19", fmt.Sprintf("the writer sink behind the gated filter received something that is not one JSON document: %q", string(l))})
			return res
		}
		for _, dt := range doc.Payload.Details {
			seen[dt.Payload.M]++
		}
	}
	dup, lost := 0, 0
	var exDup, exLost int64
	for m := int64(1); m <= marker; m++ {
		if seen[m] > 1 {
			dup++
			exDup = m
		}
		if acked[m] && seen[m] == 0 {
			lost++
			exLost = m
		}
	}
	if dup > 0 || lost > 0 {
		res.Problems = append(res.Problems, Problem{"C19", fmt.Sprintf("gated filter flushing through its own Broker under %d concurrent Sends: %d events are in more than one composite (e.g. event %d), %d events whose Send succeeded are in none after the final FlushAll (e.g. event %d); %d composites written", res.Sends, dup, exDup, lost, exLost, len(out.lines))})
	}
	return res
}

// SharedConfigProbe: two encrypt filters built from the same salt / info slices (one configuration, two pipelines).
// Rotating one of them changes neither the other filter's digests nor the caller's slices.
func SharedConfigProbe() CompResult {
	res := CompResult{Name: "shared-config"}
	salt, info := []byte("salt-of-the-application"), []byte("info-of-the-application")
	snapS, snapI := append([]byte{}, salt...), append([]byte{}, info...)
	w := encrep.NewWrapper("shared-config")
	fA := &encrypt.Filter{Wrapper: w, HmacSalt: salt, HmacInfo: info}
	fB := &encrypt.Filter{Wrapper: w, HmacSalt: salt, HmacInfo: info}
	digest := func(f *encrypt.Filter) string {
		out, err := f.Process(context.Background(), &eventlogger.Event{Type: "t", Payload: &secretPayload{User: "u", Token: "t", Email: "e@x", Digest: "d@x"}, Formatted: map[string][]byte{}})
		if err != nil || out == nil {
			return fmt.Sprintf("error: %v", err)
		}
		return out.Payload.(*secretPayload).Digest
	}
	before := digest(fB)
	fA.Rotate(encrypt.WithSalt([]byte("s2")), encrypt.WithInfo([]byte("i2")))
	digest(fA)
	after := digest(fB)
	if before != after {
		res.Problems = append(res.Problems, Problem{"C19", fmt.Sprintf("two encrypt filters were configured from the same salt / info slices; Rotate on one changed the digests of the other: %q before, %q after", before, after)})
	}
	if !bytes.Equal(salt, snapS) || !bytes.Equal(info, snapI) {
		res.Problems = append(res.Problems, Problem{"C19", fmt.Sprintf("Rotate wrote into the caller's configuration slices: salt %q (was %q), info %q (was %q)", salt, snapS, info, snapI)})
	}
	return res
}

type countSink struct {
	name string
	n    atomic.Int64
}

func (c *countSink) Process(ctx context.Context, e *eventlogger.Event) (*eventlogger.Event, error) {
	c.n.Add(1)
	return nil, nil
}
func (c *countSink) Reopen() error              { return nil }
func (c *countSink) Type() eventlogger.NodeType { return eventlogger.NodeTypeSink }

// OverwriteStress: senders hammer one event type while a single client keeps overwriting pipeline "p"
// with alternating versions. Every Send must be processed by exactly one version (never both, never
// neither), and once an overwriting call has returned only by a version registered at or after it.
func OverwriteStress(seed int64, d time.Duration) []Problem {
	var problems []Problem
	var pmu sync.Mutex
	problem := func(prop, f string, a ...interface{}) {
		pmu.Lock()
		if len(problems) < 6 {
			problems = append(problems, Problem{prop, fmt.Sprintf(f, a...)})
		}
		pmu.Unlock()
	}
	b, _ := hn.NewBroker()
	b.RegisterNode("fmt", &leaf{eventlogger.NodeTypeFormatter})
	var installed atomic.Int64 // highest version whose registration has returned
	var verc int64
	mkVer := func() (int, *marker) {
		v := int(atomic.AddInt64(&verc, 1))
		m := &marker{ver: v, seen: map[int]int{}}
		return v, m
	}
	var markers sync.Map
	regVer := func() {
		v, m := mkVer()
		markers.Store(v, m)
		mid, sid := eventlogger.NodeID(fmt.Sprintf("mk%d", v)), eventlogger.NodeID(fmt.Sprintf("sk%d", v))
		b.RegisterNode(mid, m)
		b.RegisterNode(sid, &leaf{eventlogger.NodeTypeSink})
		if err := b.RegisterPipeline(eventlogger.Pipeline{PipelineID: "p", EventType: "t", NodeIDs: []eventlogger.NodeID{mid, "fmt", sid}}); err != nil {
			problem("C07", "overwriting RegisterPipeline failed: %v", err)
			return
		}
		installed.Store(int64(v))
	}
	regVer()
	b.SetSuccessThreshold("t", 1)
	stop := make(chan struct{})
	var wg sync.WaitGroup
	var sendID, sends int64
	for s := 0; s < 8; s++ {
		wg.Add(1)
		go func() {
			defer wg.Done()
			for {
				select {
				case <-stop:
					return
				default:
				}
				sid := int(atomic.AddInt64(&sendID, 1))
				floor := installed.Load()
				st, err := b.Send(context.Background(), "t", sid)
				atomic.AddInt64(&sends, 1)
				var saw []int
				markers.Range(func(k, v interface{}) bool {
					m := v.(*marker)
					m.mu.Lock()
					c := m.seen[sid]
					delete(m.seen, sid)
					m.mu.Unlock()
					for i := 0; i < c; i++ {
						saw = append(saw, m.ver)
					}
					return true
				})
				switch {
				case len(saw) == 0:
					problem("C07", "a Send was processed by NO version of a pipeline that was registered throughout (only overwritten): status complete=%v err=%v", st.Complete(), err)
				case len(saw) > 1:
					problem("C07", "a Send was processed by %d versions of one pipeline: %v", len(saw), saw)
				case int64(saw[0]) < floor:
					problem("C07", "a Send that started after the overwrite to version %d had returned was processed by version %d", floor, saw[0])
				}
			}
		}()
	}
	// the amount of work decides when the stress is over, not the clock: on a loaded machine the same number of overwrites
	// and Sends is wanted (at least d, then until 4000 overwrites and 20000 Sends are done, at most 30 s)
	deadline, limit := time.Now().Add(d), time.Now().Add(30*time.Second)
	for n := 0; time.Now().Before(deadline) || ((n < 4000 || atomic.LoadInt64(&sends) < 20000) && time.Now().Before(limit)); n++ {
		regVer()
		pmu.Lock()
		np := len(problems)
		pmu.Unlock()
		if np > 0 {
			break
		}
	}
	close(stop)
	wg.Wait()
	return problems
}

// together runs f(0..n-1) in n goroutines that are released at the same instant (spin barrier: the callers are already
// running on their cores when they are let go, which a WaitGroup release does not achieve).
func together(n int, f func(k int)) {
	var done sync.WaitGroup
	var ready atomic.Int64
	var goFlag atomic.Bool
	for k := 0; k < n; k++ {
		done.Add(1)
		go func(k int) {
			defer done.Done()
			ready.Add(1)
			for !goFlag.Load() {
			}
			f(k)
		}(k)
	}
	for ready.Load() < int64(n) {
		runtime.Gosched()
	}
	goFlag.Store(true)
	done.Wait()
}

// DenyStress: several clients register the same fresh id with DenyOverwrite at once. DenyOverwrite is sticky
// (Registry.tla: DenyStickyNode / DenyStickyPipeline): whatever the order, exactly one call succeeds, the others are
// refused, and what is registered afterwards is the winner's node / pipeline.
func DenyStress(seed int64, rounds int) []Problem {
	var problems []Problem
	b, _ := hn.NewBroker()
	b.RegisterNode("fmt", &leaf{eventlogger.NodeTypeFormatter})
	const callers = 8
	for i := 0; i < rounds && len(problems) < 4; i++ {
		id := eventlogger.NodeID(fmt.Sprintf("deny-%d", i))
		pid := eventlogger.PipelineID(fmt.Sprintf("denyp-%d", i))
		sinks := make([]*countSink, callers)
		nodeErr := make([]error, callers)
		for k := 0; k < callers; k++ {
			sinks[k] = &countSink{}
		}
		together(callers, func(k int) {
			nodeErr[k] = b.RegisterNode(id, sinks[k], eventlogger.WithNodeRegistrationPolicy(eventlogger.DenyOverwrite))
		})
		okN, winner := 0, -1
		for k, e := range nodeErr {
			if e == nil {
				okN++
				winner = k
			}
		}
		if okN != 1 {
			problems = append(problems, Problem{"C07", fmt.Sprintf("%d of %d concurrent RegisterNode(%q, DenyOverwrite) calls succeeded: DenyOverwrite must refuse every registration after the first", okN, callers, id)})
			continue
		}
		// pipelines: the same with the pipeline policy; the registered pipeline must then deliver to the winner's sink only
		pipeErr := make([]error, callers)
		together(callers, func(k int) {
			pipeErr[k] = b.RegisterPipeline(eventlogger.Pipeline{PipelineID: pid, EventType: "deny", NodeIDs: []eventlogger.NodeID{"fmt", id}}, eventlogger.WithPipelineRegistrationPolicy(eventlogger.DenyOverwrite))
		})
		okP := 0
		for _, e := range pipeErr {
			if e == nil {
				okP++
			}
		}
		if okP != 1 {
			problems = append(problems, Problem{"C07", fmt.Sprintf("%d of %d concurrent RegisterPipeline(%q, DenyOverwrite) calls succeeded", okP, callers, pid)})
		}
		b.Send(context.Background(), "deny", i)
		for k, sk := range sinks {
			if n := sk.n.Load(); (k == winner && n != 1) || (k != winner && n != 0) {
				problems = append(problems, Problem{"C07", fmt.Sprintf("after the race for %q the Send reached sink %d %d times (winner %d): the registered node is not the one whose registration succeeded", id, k, n, winner)})
				break
			}
		}
		if err := b.RemovePipeline("deny", pid); err != nil {
			problems = append(problems, Problem{"C07", "RemovePipeline: " + err.Error()})
		}
	}
	return problems
}

// SharedRemoveStress: pipelines that share nodes are removed by concurrent RemovePipeline calls; at quiescence every
// node must be removable (reference counts back at zero) - the outcome of any sequential order.
func SharedRemoveStress(seed int64, rounds int) []Problem {
	var problems []Problem
	const pipes, shared = 8, 6
	for i := 0; i < rounds && len(problems) < 4; i++ {
		b, _ := hn.NewBroker()
		var ids []eventlogger.NodeID
		for n := 0; n < shared; n++ {
			id := eventlogger.NodeID(fmt.Sprintf("f%d", n))
			b.RegisterNode(id, &leaf{eventlogger.NodeTypeFilter})
			ids = append(ids, id)
		}
		b.RegisterNode("fmt", &leaf{eventlogger.NodeTypeFormatter})
		b.RegisterNode("sink", &leaf{eventlogger.NodeTypeSink})
		ids = append(ids, "fmt", "sink")
		for p := 0; p < pipes; p++ {
			if err := b.RegisterPipeline(eventlogger.Pipeline{PipelineID: eventlogger.PipelineID(fmt.Sprintf("p%d", p)), EventType: "t", NodeIDs: ids}); err != nil {
				return append(problems, Problem{"C04", "setup: " + err.Error()})
			}
		}
		together(pipes, func(p int) { b.RemovePipeline("t", eventlogger.PipelineID(fmt.Sprintf("p%d", p))) })
		for _, id := range ids {
			if err := b.RemoveNode(context.Background(), id); err != nil {
				problems = append(problems, Problem{"C04", fmt.Sprintf("after %d concurrent RemovePipeline calls removed every pipeline, node %q cannot be removed (%v): no sequential order of the removals leaves it in use", pipes, id, err)})
				break
			}
		}
	}
	return problems
}

// slowType is a formatter whose Type() takes a while when asked to: RegisterPipeline asks the last nodes of the
// pipeline for their types when it validates the shape.
type slowType struct {
	leaf
	slow    atomic.Bool
	entered chan struct{} // signalled when Type() is asked while armed
	release chan struct{} // Type() returns when this is closed, or after 2 ms
}

func newSlowType() *slowType {
	return &slowType{leaf: leaf{eventlogger.NodeTypeFormatter}, entered: make(chan struct{}, 8), release: make(chan struct{})}
}

func (n *slowType) Type() eventlogger.NodeType {
	if n.slow.Load() {
		select {
		case n.entered <- struct{}{}:
		default:
		}
		select {
		case <-n.release:
		case <-time.After(2 * time.Millisecond):
		}
	}
	return eventlogger.NodeTypeFormatter
}

// whenAsked waits until the node has been asked for its type (or 20 ms), runs f and lets Type() return.
func (n *slowType) whenAsked(f func()) {
	select {
	case <-n.entered:
	case <-time.After(20 * time.Millisecond):
	}
	f()
	close(n.release)
}

// gateFilter holds every event inside Process until it is released.
type gateFilter struct {
	entered chan struct{}
	release chan struct{}
}

func newGateFilter() *gateFilter {
	return &gateFilter{entered: make(chan struct{}, 8), release: make(chan struct{})}
}
func (g *gateFilter) Process(ctx context.Context, e *eventlogger.Event) (*eventlogger.Event, error) {
	select {
	case g.entered <- struct{}{}:
	default:
	}
	<-g.release
	return e, nil
}
func (g *gateFilter) Reopen() error              { return nil }
func (g *gateFilter) Type() eventlogger.NodeType { return eventlogger.NodeTypeFilter }

// askedType tells when it is asked for its type and answers only when released (or after 300 ms).
type askedType struct {
	t       eventlogger.NodeType
	sink    *countSink
	asked   chan struct{}
	release chan struct{}
}

func newAskedType(t eventlogger.NodeType) *askedType {
	return &askedType{t: t, asked: make(chan struct{}, 8), release: make(chan struct{})}
}
func (a *askedType) Process(ctx context.Context, e *eventlogger.Event) (*eventlogger.Event, error) {
	if a.sink != nil {
		return a.sink.Process(ctx, e)
	}
	return e, nil
}
func (a *askedType) Reopen() error { return nil }
func (a *askedType) Type() eventlogger.NodeType {
	select {
	case a.asked <- struct{}{}:
	default:
	}
	select {
	case <-a.release:
	case <-time.After(300 * time.Millisecond):
	}
	return a.t
}

// AtomicityStress: two registry calls that conflict are released from a barrier; each call of the registry takes
// effect atomically (BrokerConc.tla / Registry.tla), so their results and the state they leave must be those of one
// of the two sequential orders.
func AtomicityStress(seed int64, rounds int) []Problem {
	var problems []Problem
	ctx := context.Background()
	race := func(f1, f2 func()) {
		together(2, func(k int) {
			if k == 0 {
				f1()
			} else {
				f2()
			}
		})
	}
	inUse := func(b *eventlogger.Broker, id eventlogger.NodeID) string {
		// probe on a node we are willing to lose
		err := b.RemoveNode(ctx, id)
		switch {
		case err == nil:
			return "idle"
		case errors.Is(err, eventlogger.ErrNodeNotFound):
			return "gone"
		default:
			return "inuse"
		}
	}
	for i := 0; i < rounds && len(problems) < 6; i++ {
		// (1) RegisterPipeline vs RemoveNode of a node it lists
		{
			b, _ := hn.NewBroker()
			st := newSlowType()
			sk := &countSink{}
			b.RegisterNode("f", &leaf{eventlogger.NodeTypeFilter})
			b.RegisterNode("fmt", st)
			b.RegisterNode("sink", sk)
			st.slow.Store(true)
			var e1, e2 error
			race(func() {
				e1 = b.RegisterPipeline(eventlogger.Pipeline{PipelineID: "p", EventType: "t", NodeIDs: []eventlogger.NodeID{"f", "fmt", "sink"}})
			}, func() {
				st.whenAsked(func() { e2 = b.RemoveNode(ctx, "sink") })
			})
			st.slow.Store(false)
			if e1 == nil && e2 == nil {
				problems = append(problems, Problem{"C05", "RegisterPipeline([f fmt sink]) and RemoveNode(sink) ran concurrently and both succeeded: in either order one of them must be refused (the pipeline lists an unregistered node, or the node is in use)"})
				continue
			}
			if e1 == nil {
				b.Send(ctx, "t", i)
				if sk.n.Load() != 1 {
					problems = append(problems, Problem{"C05", fmt.Sprintf("a registered pipeline delivered %d times to its sink", sk.n.Load())})
				}
			}
		}
		// (2) RegisterPipeline (default policy) vs RegisterPipeline (DenyOverwrite) of the same id
		{
			b, _ := hn.NewBroker()
			st := newSlowType()
			s1, s2 := &countSink{}, &countSink{}
			b.RegisterNode("f", &leaf{eventlogger.NodeTypeFilter})
			b.RegisterNode("fmt", st)
			b.RegisterNode("fmt2", &leaf{eventlogger.NodeTypeFormatter})
			b.RegisterNode("s1", s1)
			b.RegisterNode("s2", s2)
			st.slow.Store(true)
			var e1, e2 error
			race(func() {
				e1 = b.RegisterPipeline(eventlogger.Pipeline{PipelineID: "p", EventType: "t", NodeIDs: []eventlogger.NodeID{"f", "fmt", "s1"}})
			}, func() {
				st.whenAsked(func() {
					e2 = b.RegisterPipeline(eventlogger.Pipeline{PipelineID: "p", EventType: "t", NodeIDs: []eventlogger.NodeID{"fmt2", "s2"}}, eventlogger.WithPipelineRegistrationPolicy(eventlogger.DenyOverwrite))
				})
			})
			st.slow.Store(false)
			b.Send(ctx, "t", i)
			n1, n2 := s1.n.Load(), s2.n.Load()
			switch {
			case e2 != nil:
				problems = append(problems, Problem{"C07", "RegisterPipeline with DenyOverwrite over an id registered with the default policy failed: " + e2.Error()})
			case e1 == nil && (n1 != 0 || n2 != 1):
				// both succeeded: the default registration came first, the deny registration replaced it
				problems = append(problems, Problem{"C07", fmt.Sprintf("both registrations of pipeline p succeeded, so the DenyOverwrite one came last; the Send reached s1 %d times and s2 %d times (the DenyOverwrite pipeline was overwritten)", n1, n2)})
			case e1 != nil && (n1 != 0 || n2 != 1):
				problems = append(problems, Problem{"C05", fmt.Sprintf("the refused registration left its mark: s1 %d, s2 %d deliveries", n1, n2)})
			}
			if e1 == nil && e2 == nil {
				if st := inUse(b, "s1"); st != "idle" {
					problems = append(problems, Problem{"C06", "node s1 of the replaced pipeline is " + st + ", want registered and unused"})
				}
			}
		}
		// (3) several RemovePipelineAndNodes of one pipeline that shares its nodes with a second pipeline
		{
			b, _ := hn.NewBroker()
			var ids []eventlogger.NodeID
			var closers []*marker
			for n := 0; n < 60; n++ {
				id := eventlogger.NodeID(fmt.Sprintf("f%d", n))
				m := &marker{ver: n, seen: map[int]int{}}
				closers = append(closers, m)
				b.RegisterNode(id, m)
				ids = append(ids, id)
			}
			sk := &countSink{}
			b.RegisterNode("fmt", &leaf{eventlogger.NodeTypeFormatter})
			b.RegisterNode("sink", sk)
			ids = append(ids, "fmt", "sink")
			b.RegisterPipeline(eventlogger.Pipeline{PipelineID: "p1", EventType: "t", NodeIDs: ids})
			b.RegisterPipeline(eventlogger.Pipeline{PipelineID: "p2", EventType: "t", NodeIDs: ids})
			var r1, r2 bool
			race(func() { r1, _ = b.RemovePipelineAndNodes(ctx, "t", "p1") }, func() { r2, _ = b.RemovePipelineAndNodes(ctx, "t", "p1") })
			if r1 == r2 {
				problems = append(problems, Problem{"C06", fmt.Sprintf("two concurrent RemovePipelineAndNodes of the same pipeline returned %v and %v: exactly one of them finds the pipeline", r1, r2)})
			}
			b.Send(ctx, "t", i)
			if sk.n.Load() != 1 {
				problems = append(problems, Problem{"C06", fmt.Sprintf("after p1 was removed, p2 (same nodes) delivered %d times", sk.n.Load())})
			}
			if err := b.RemoveNode(ctx, "f0"); err == nil || errors.Is(err, eventlogger.ErrNodeNotFound) {
				problems = append(problems, Problem{"C06", fmt.Sprintf("after p1 was removed, node f0 is not in use although p2 still lists it (RemoveNode: %v)", err)})
			}
			for _, m := range closers {
				if m.closes.Load() > 0 {
					problems = append(problems, Problem{"C06", fmt.Sprintf("a node that p2 still lists was closed %d times", m.closes.Load())})
					break
				}
			}
		}
		// (4) RemovePipelineAndNodes vs an overwrite of the same pipeline with other nodes
		{
			b, _ := hn.NewBroker()
			var xs, ys []eventlogger.NodeID
			for n := 0; n < 40; n++ {
				x, y := eventlogger.NodeID(fmt.Sprintf("x%d", n)), eventlogger.NodeID(fmt.Sprintf("y%d", n))
				b.RegisterNode(x, &leaf{eventlogger.NodeTypeFilter})
				b.RegisterNode(y, &leaf{eventlogger.NodeTypeFilter})
				xs, ys = append(xs, x), append(ys, y)
			}
			b.RegisterNode("xf", &leaf{eventlogger.NodeTypeFormatter})
			b.RegisterNode("xs", &leaf{eventlogger.NodeTypeSink})
			b.RegisterNode("yf", &leaf{eventlogger.NodeTypeFormatter})
			b.RegisterNode("ys", &leaf{eventlogger.NodeTypeSink})
			xs, ys = append(xs, "xf", "xs"), append(ys, "yf", "ys")
			b.RegisterPipeline(eventlogger.Pipeline{PipelineID: "p", EventType: "t", NodeIDs: xs})
			var removed bool
			var eo error
			race(func() { removed, _ = b.RemovePipelineAndNodes(ctx, "t", "p") }, func() {
				eo = b.RegisterPipeline(eventlogger.Pipeline{PipelineID: "p", EventType: "t", NodeIDs: ys})
			})
			if !removed || eo != nil {
				problems = append(problems, Problem{"C04", fmt.Sprintf("RemovePipelineAndNodes(p) returned %v, overwrite of p returned %v", removed, eo)})
				continue
			}
			reg := b.IsAnyPipelineRegistered("t")
			x0, y0 := inUse(b, "x0"), inUse(b, "y0")
			// remove first: p = ys registered (y in use), x gone.  overwrite first: x released (idle), then p (ys) removed with its nodes (y gone)
			okA := reg && y0 == "inuse" && x0 == "gone"
			okB := !reg && y0 == "gone" && x0 == "idle"
			if !okA && !okB {
				problems = append(problems, Problem{"C06", fmt.Sprintf("RemovePipelineAndNodes(p over x*) raced an overwrite of p with y*: pipeline registered=%v, x0 %s, y0 %s - neither order of the two calls leaves this (remove first: registered, x gone, y in use; overwrite first: not registered, x idle, y gone)", reg, x0, y0)})
			}
		}
		// (5) a Send that is already walking the pipelines of its type vs an overwrite of one of them that is refused
		//     (filter -> sink without a formatter): a refused call takes no effect, so the Send delivers to the
		//     registered pipelines exactly once each and never to the nodes of the refused definition
		{
			b, _ := hn.NewBroker()
			g1, g2 := newGateFilter(), newGateFilter()
			s1, s2, bogus := &countSink{}, &countSink{}, &countSink{}
			bf, bs := newAskedType(eventlogger.NodeTypeFilter), newAskedType(eventlogger.NodeTypeSink)
			bs.sink = bogus
			b.RegisterNode("g1", g1)
			b.RegisterNode("g2", g2)
			b.RegisterNode("fmt", &leaf{eventlogger.NodeTypeFormatter})
			b.RegisterNode("s1", s1)
			b.RegisterNode("s2", s2)
			b.RegisterNode("bf", bf)
			b.RegisterNode("bs", bs)
			b.RegisterPipeline(eventlogger.Pipeline{PipelineID: "p1", EventType: "t", NodeIDs: []eventlogger.NodeID{"g1", "fmt", "s1"}})
			b.RegisterPipeline(eventlogger.Pipeline{PipelineID: "p2", EventType: "t", NodeIDs: []eventlogger.NodeID{"g2", "fmt", "s2"}})
			sendDone := make(chan error, 1)
			go func() { _, err := b.Send(ctx, "t", i); sendDone <- err }()
			other := eventlogger.PipelineID("")
			select {
			case <-g1.entered:
				other = "p2"
			case <-g2.entered:
				other = "p1"
			case <-time.After(5 * time.Second):
			}
			if other == "" {
				problems = append(problems, Problem{"C04", "a Send over two registered pipelines entered neither of them within 5 s"})
				close(g1.release)
				close(g2.release)
				continue
			}
			regDone := make(chan error, 1)
			go func() {
				regDone <- b.RegisterPipeline(eventlogger.Pipeline{PipelineID: other, EventType: "t", NodeIDs: []eventlogger.NodeID{"bf", "bs"}})
			}()
			// the refused definition's nodes are asked for their type (or the call is over already); then the Send goes on
			select {
			case <-bf.asked:
			case <-bs.asked:
			case e := <-regDone:
				regDone <- e
			case <-time.After(2 * time.Second):
			}
			close(g1.release)
			close(g2.release)
			var sendErr error
			select {
			case sendErr = <-sendDone:
			case <-time.After(10 * time.Second):
				problems = append(problems, Problem{"C12", "a Send that overlapped a refused RegisterPipeline did not return within 10 s"})
			}
			close(bf.release)
			close(bs.release)
			var regErr error
			select {
			case regErr = <-regDone:
			case <-time.After(10 * time.Second):
				problems = append(problems, Problem{"C12", "a refused RegisterPipeline did not return within 10 s"})
				continue
			}
			if regErr == nil {
				problems = append(problems, Problem{"C05", "RegisterPipeline of filter -> sink (no formatter) over a registered pipeline was accepted"})
				continue
			}
			_ = sendErr
			if n1, n2, nb := s1.n.Load(), s2.n.Load(), bogus.n.Load(); n1 != 1 || n2 != 1 || nb != 0 {
				problems = append(problems, Problem{"C04", fmt.Sprintf("a Send overlapped an overwrite of %s that was refused (%v): it delivered %d times to p1, %d times to p2 and %d times to the sink of the refused definition; both pipelines were registered before the Send started and never removed, and the refused definition was never registered", other, regErr, n1, n2, nb)})
			}
		}
		// (6) RemovePipelineAndNodes of a pipeline whose three closers all fail: it removes everything, returns true and
		//     reports every failure (however it goes about closing them)
		{
			b, _ := hn.NewBroker()
			ids := []eventlogger.NodeID{"c1", "c2", "fmt", "c3"}
			b.RegisterNode("c1", &closerLeaf{leaf{eventlogger.NodeTypeFilter}})
			b.RegisterNode("c2", &closerLeaf{leaf{eventlogger.NodeTypeFilter}})
			b.RegisterNode("fmt", &leaf{eventlogger.NodeTypeFormatter})
			b.RegisterNode("c3", &closerLeaf{leaf{eventlogger.NodeTypeSink}})
			b.RegisterPipeline(eventlogger.Pipeline{PipelineID: "p", EventType: "t", NodeIDs: ids})
			ok, err := b.RemovePipelineAndNodes(ctx, "t", "p")
			n := 0
			if err != nil {
				n = strings.Count(err.Error(), "closerLeaf: close failed")
			}
			if !ok || n != 3 {
				problems = append(problems, Problem{"C06", fmt.Sprintf("RemovePipelineAndNodes of a pipeline with three nodes whose Close fails returned %v and reported %d of the 3 failures: %v", ok, n, err)})
			}
		}
	}
	return problems
}

// DuringSendStress: the set of pipelines of a type changes while a Send of that type is inside a node. Whatever that
// Send sees, every Send that starts after the change returned traverses exactly the pipelines registered at that
// moment, each once (C01; Dispatch.tla's Start reads the registry as it is when the Send starts).
func DuringSendStress(seed int64, rounds int) []Problem {
	var problems []Problem
	ctx := context.Background()
	for i := 0; i < rounds && len(problems) < 4; i++ {
		k := 1 + (i*7+int(seed))%24
		b, _ := hn.NewBroker()
		g1 := newGateFilter()
		s1 := &countSink{}
		b.RegisterNode("g1", g1)
		b.RegisterNode("fmt", &leaf{eventlogger.NodeTypeFormatter})
		b.RegisterNode("s1", s1)
		b.RegisterPipeline(eventlogger.Pipeline{PipelineID: "p1", EventType: "t", NodeIDs: []eventlogger.NodeID{"g1", "fmt", "s1"}})
		// pipelines that exist before the held Send and are removed during it
		var gone []*countSink
		for j := 0; j < k/2; j++ {
			sk := &countSink{}
			gone = append(gone, sk)
			id := eventlogger.NodeID(fmt.Sprintf("old%d", j))
			b.RegisterNode(id, sk)
			b.RegisterPipeline(eventlogger.Pipeline{PipelineID: eventlogger.PipelineID(id), EventType: "t", NodeIDs: []eventlogger.NodeID{"fmt", id}})
		}
		if i%2 == 1 {
			// the registry was read before (a warm start): one complete Send
			close(g1.release)
			b.Send(ctx, "t", "warm")
			g1.release = make(chan struct{})
			for len(g1.entered) > 0 {
				<-g1.entered
			}
			s1.n.Store(0)
			for _, sk := range gone {
				sk.n.Store(0)
			}
		}
		sendDone := make(chan struct{})
		go func() { b.Send(ctx, "t", "held"); close(sendDone) }()
		select {
		case <-g1.entered:
		case <-time.After(5 * time.Second):
			problems = append(problems, Problem{"C01", "a Send did not enter the first node of the only pipeline that starts with it within 5 s"})
			close(g1.release)
			continue
		}
		var added []*countSink
		for j := 0; j < k; j++ {
			sk := &countSink{}
			added = append(added, sk)
			id := eventlogger.NodeID(fmt.Sprintf("new%d", j))
			b.RegisterNode(id, sk)
			if err := b.RegisterPipeline(eventlogger.Pipeline{PipelineID: eventlogger.PipelineID(id), EventType: "t", NodeIDs: []eventlogger.NodeID{"fmt", id}}); err != nil {
				problems = append(problems, Problem{"C05", "RegisterPipeline during a Send failed: " + err.Error()})
			}
		}
		for j := range gone {
			id := eventlogger.PipelineID(fmt.Sprintf("old%d", j))
			if j%2 == 0 {
				b.RemovePipeline("t", id)
			} else {
				b.RemovePipelineAndNodes(ctx, "t", id)
			}
		}
		close(g1.release)
		select {
		case <-sendDone:
		case <-time.After(10 * time.Second):
			problems = append(problems, Problem{"C03", "a Send that overlapped registrations did not return within 10 s"})
			continue
		}
		for round := 0; round < 2; round++ {
			s1.n.Store(0)
			for _, sk := range append(append([]*countSink{}, added...), gone...) {
				sk.n.Store(0)
			}
			b.Send(ctx, "t", round)
			missing, twice, stale := 0, 0, 0
			for _, sk := range added {
				switch n := sk.n.Load(); {
				case n == 0:
					missing++
				case n > 1:
					twice++
				}
			}
			for _, sk := range gone {
				if sk.n.Load() > 0 {
					stale++
				}
			}
			if missing+twice+stale > 0 || s1.n.Load() != 1 {
				problems = append(problems, Problem{"C01", fmt.Sprintf("%d pipelines were registered and %d removed while an earlier Send of the type was inside a node; Send %d after all of that returned: pipeline p1 traversed %d times, %d of the new pipelines not traversed, %d traversed more than once, %d removed pipelines still traversed", k, len(gone), round+1, s1.n.Load(), missing, twice, stale)})
				break
			}
		}
	}
	return problems
}

// FirstUseStress: the first registration for a fresh event type races with the two threshold setters;
// once all three calls returned, the broker must be in a state some sequential order produces:
// the pipeline registered and delivering exactly once, both thresholds read back as set.
func FirstUseStress(seed int64, rounds int) []Problem {
	var problems []Problem
	b, _ := hn.NewBroker()
	b.RegisterNode("fmt", &leaf{eventlogger.NodeTypeFormatter})
	sink := &countSink{}
	b.RegisterNode("sink", sink)
	for i := 0; i < rounds && len(problems) < 4; i++ {
		t := eventlogger.EventType(fmt.Sprintf("et-%d", i))
		errs := make([]error, 3)
		{
			together(3, func(k int) {
				switch k {
				case 0:
					errs[0] = b.RegisterPipeline(eventlogger.Pipeline{PipelineID: "p", EventType: t, NodeIDs: []eventlogger.NodeID{"fmt", "sink"}})
				case 1:
					errs[1] = b.SetSuccessThreshold(t, 1)
				case 2:
					errs[2] = b.SetSuccessThresholdSinks(t, 1)
				}
			})
		}
		if errs[0] != nil || errs[1] != nil || errs[2] != nil {
			problems = append(problems, Problem{"C04", fmt.Sprintf("first-use calls failed: %v", errs)})
			continue
		}
		a, ok1 := b.SuccessThreshold(t)
		s, ok2 := b.SuccessThresholdSinks(t)
		before := sink.n.Load()
		_, err := b.Send(context.Background(), t, i)
		got := sink.n.Load() - before
		if !b.IsAnyPipelineRegistered(t) || got != 1 || a != 1 || s != 1 || !ok1 || !ok2 || err != nil {
			what := fmt.Sprintf("after RegisterPipeline, SetSuccessThreshold(1) and SetSuccessThresholdSinks(1) ran concurrently on a fresh event type and all returned nil: registered=%v delivered=%d thresholds=%d,%d err=%v - no sequential order of the three calls gives this", b.IsAnyPipelineRegistered(t), got, a, s, err)
			problems = append(problems, Problem{"C04", what})
			if a != 1 || s != 1 || !ok1 || !ok2 {
				problems = append(problems, Problem{"C02", "thresholds do not read back as last set: " + what})
			}
		}
	}
	return problems
}

// TimeLocalFirstUse: in a fresh process, events stamped with the local time are filtered by encrypt.Filter while another
// goroutine uses the local time zone for the first time (the gated filter's Payload.ComposeFrom formats a time). Run
// under the race detector, in a process of its own: time.Local is initialised once per process.
func TimeLocalFirstUse() []Problem {
	var problems []Problem
	f := &encrypt.Filter{Wrapper: encrep.NewWrapper("timeloc")}
	type pl struct {
		S string `class:"secret"`
		T time.Time
	}
	together(2, func(k int) {
		if k == 1 {
			gp := &gated.Payload{ID: "x", Flush: true}
			gp.ComposeFrom([]*eventlogger.Event{{Type: "t", CreatedAt: time.Now(), Payload: &gated.Payload{ID: "x", Detail: map[string]interface{}{"k": "v"}}}})
			return
		}
		for i := 0; i < 300; i++ {
			now := time.Now()
			e := &eventlogger.Event{Type: "t", CreatedAt: now, Payload: &pl{"secret", now}, Formatted: map[string][]byte{}}
			out, err := f.Process(context.Background(), e)
			if err != nil || out == nil || !out.CreatedAt.Equal(now) || out.Payload.(*pl).S != "[REDACTED]" || !out.Payload.(*pl).T.Equal(now) {
				problems = append(problems, Problem{"C19", fmt.Sprintf("encrypt.Filter on an event stamped with local time: err=%v", err)})
				return
			}
		}
	})
	return problems
}
