#!/usr/bin/env python3
"""Generates MANIFEST.json from the table below (kept in one place so it stays valid)."""
import json, os, subprocess
V = os.path.dirname(os.path.dirname(os.path.abspath(__file__)))
hooks = subprocess.run(["git", "-C", "/repo", "log", "--format=%H %s"], capture_output=True, text=True).stdout.splitlines()
hook_commits = [l.split()[0] for l in hooks if l.split(" ", 1)[1].startswith("verif:")]

CHECKS = {
 "C16": dict(engine="encrypt", design="§5 C16", technique="TLC exhaustive check of Keys.tla (ValueUsesMaterialInForce, LaterEventsUseNew, OneDerivedWrapperPerEvent, PerEventSaltInfoWin over all interleavings of events and rotations) + code->spec validation of recorded histories of the real filter (KeysTrace.tla)",
   text="Model checking of which key material (wrapper epoch, derived per-event wrapper, salt, info) each value may use under any interleaving of events and rotations; random sequential and concurrent histories of Rotate, rotation payloads and events run on the real filter, every output value is classified by trial decryption with every wrapper and per-event derivation that ever existed and by independent HMAC recomputation, and TLC checks the classified history is a behaviour of the model (linearisation points placed by search). Corrupted histories must be rejected (self-test).",
   note="Cryptographic correctness of AES-GCM/HKDF is trusted; the model decides which key and when. Byte strings include empty and non-UTF-8."),
 "C09": dict(engine="encrypt", design="§5 C09", technique="TLC-enumerated decision table Policy.tla (SecureDefault, FailClosed, precedence) and shape grammar Walk.tla (the reflection walk transcribed; NoLeak on the intended design, every deviation in a named class) + one implementation run per model state on the real encrypt.Filter",
   text="TLC evaluates, for every class/operation spelling x override map x wrapper state (20k vectors) and for every payload shape of the grammar up to the depth bound (785 at depth 4), what the filter must do; each vector is built with reflect (unique canaries at the leaves), run through the real Process, and each leaf classified by trial (redacted marker, decryption, HMAC recomputation, canary still readable in the value or in its JSON rendering). Shapes that leak or panic and belong to a recorded deviation class are reported as KNOWN-FINDING; any other leak, panic, wrong form or partial result is a violation.",
   note="Known findings F9a-d, F11, F12, F13 (known_findings.json). Interface-typed fields, arrays and []*string fields are outside the statement's grammar. AES-GCM / HKDF are trusted."),
 "C10": dict(engine="encrypt", design="§5 C10", technique="same vector spaces as C09 (Policy.tla, Walk.tla, pointer-tag vectors): each input is built twice from the model's description and compared structurally after Process; output compared with the input's skeleton",
   text="For every model vector the payload is constructed twice (the second build is the deep snapshot, independent of any copy library); after the real Process the input must equal the snapshot, the output must have the same dynamic type, container lengths, key sets, public-classified and non-string values, and with all operations none the very same event must be returned.",
   note="Exported fields only. Known finding F11 (public value under a depth-2 pointer tag is redacted)."),
 "C13": dict(engine="sinks", design="§5 C13", technique="TLC-enumerated decision table and concurrent-call model (Sinks.tla) + one implementation run per model vector on the real writer.Sink, FileSink and ChannelSink",
   text="TLC checks the sink decision table (missing format => error, write failure/short write => error, success => exactly the configured format's bytes) and, for concurrent Process calls, that every acknowledged call's bytes are in the output once and contiguous (fails without the mutex); each vector is then run on the real sinks with a recording, deliberately slow writer that flags overlapping entry, 1/4/16 callers, /dev/null, stdout, stderr and /dev/full paths; ChannelSink is run for every ordering of channel-ready, timeout and context-done instants.",
   note="ChannelSink timing uses logical instants 70 ms apart; latency is asserted only as 'not later than the earlier of timeout and context + slack'."),
 "C08": dict(engine="filesink", design="§5 C08", technique="TLC exhaustive check of FileSink.tla (step level: concurrent writers, Reopen, external rename, pause, Crash in every state) and FsSeq.tla + spec->code replay of every FsSeq transition on a real FileSink + concurrent-writer runs judged by real-time order + SIGKILL at every hook label and random instants",
   text="Model checking of NoLossNoDupInOrder, AckedPrefix (at most the in-flight event beyond the acknowledged prefix, also across Crash), PrunedAreOldestOwn over all interleavings of the bounded step-level model; the API-level model's complete transition graph for 5-8 configurations is replayed in temporary directories with every event a unique self-delimiting token, so loss, duplication, reordering and tearing are visible; a child process is killed at the k-th hit of every file-sink hook and at random instants.",
   note="Trusted: single write(2) <= 200 bytes on O_APPEND is all-or-nothing under SIGKILL (exercised, not proved). Time-triggered rotation judged only where the measured interval is certain."),
 "C15": dict(engine="filesink", design="§5 C15", technique="TLC exhaustive check of FsSeq.tla (NeverWithoutLimits, RetentionHolds, ActiveHasPlainName, ForeignKept) + spec->code replay comparing the per-file distribution of events, BytesWritten and file modes after every step",
   text="Model checking of the rotation/naming/retention rules of the API-level model with event sizes below, at and above MaxBytes; every transition is executed on a real FileSink and the parsed directory (which events in which rotated/active/foreign file), the exported counter and the file modes are compared with the model.",
   note="MaxFiles = 0 means retention disabled. Time conditions only where certain (ambiguous runs are skipped and counted)."),
 "C12": dict(engine="locks", design="§5 C12", technique="TLC deadlock-freedom and liveness of Locks.tla (writer-preferring RWMutex, node mutex, re-entrant callbacks) + directed runs of every scenario on the real Broker under a watchdog with lock-mode sensing inside callbacks",
   text="Model checking of the lock protocol: with node callbacks run outside the Broker lock no reachable state is stuck and every call eventually returns, while holding the write lock across Close or the read lock across Reopen yields the three deadlocks. The same scenario set (every removing/reopening/sending operation x a node re-entering Send from Process, Close or Reopen x the library's gated filter with 0..3 pending groups x a writer parked on the lock, plus a forced gated-Process-vs-removal race) runs on the real Broker; a call that does not return, reproduced, with goroutines parked on Broker locks is a violation.",
   note="Trusted: goroutine dump; 4 s watchdog on calls whose nodes all return. The lock mode sensed inside callbacks is evidence that the model's hold table matches the code."),
 "C11": dict(engine="gated", design="§5 C11", technique="TLC exhaustive check of Gated.tla (ExactlyOnce, ArrivalOrder, NoMixing, WholeGroup, ...) + spec->code replay of every transition and of simulated walks on a real gated.Filter with probes on replayed copies",
   text="Model checking of the gate as a sequential object over all call sequences to the depth bound (3 ids, flush/non-flush, non-gateable, empty id, clock advance, FlushAll, Close, Broker set/unset, every failure injection); each transition is executed on the real filter and its returned composite, the composites handed to the Broker and what remains gated (FlushAll / per-id flush probes) are compared.",
   note="Sequential histories; the concurrent-senders clause is covered only by the race/crash sensors of C19 until the concurrent trace check is registered. Trusted: harness Gateable payload and Sender."),
 "C17": dict(engine="gated", design="§5 C17", technique="TLC exhaustive check of Gated.tla (NoExpiredAfterProcess, EmptyAfterFlushAll, ExpiredOldestFirst, MemoryBounded) + spec->code replay on a real gated.Filter",
   text="Model checking that expiry, FlushAll and Close empty the gate over all histories to the depth bound with 0..5 open groups and arbitrary clock advances; bound to the real filter by replaying every transition and probing what is still gated on replayed copies.",
   note="Trusted: NowFunc is the filter's only clock; harness Sender records what was emitted."),
 "C01": dict(engine="dispatch", design="§5 C01", technique="TLC exhaustive check of Dispatch.tla (all interleavings, cancel anywhere) + code->spec validation of per-goroutine traces of real Sends (DispatchTrace.tla) + registry replay of deliveries",
   text="Model checking of the dispatch protocol (AtMostOnce, ForwardOnlyIf, CarryExact, liveness ForwardIf/AllStartedWhenNotCancelled) over every interleaving of collector, ranger and node goroutines with cancellation at every step; real Sends over generated configurations are recorded through hooks, validated by TLC against the model, and judged by per-execution oracles on the nodes' own logs.",
   note="Trusted: harness node logs, event pointer identity. A recorded execution the model rejects while every oracle holds is reported as MODEL-DRIFT, not as a violation."),
 "C02": dict(engine="dispatch", design="§5 C02", technique="TLC exhaustive check of Dispatch.tla (Truthful, OnePerPipe, CompleteWhenNotCancelled, ErrIff over threshold pairs) + trace validation of real Sends incl. the returned Status + registry replay of threshold semantics",
   text="Model checking of status accounting and the threshold rule for all outcome vectors and cancel points of the bounded model; every recorded Send's returned Status/error is bound to the collector's received set by the trace specification and checked against what the harness nodes actually returned.",
   note="Trusted: harness node logs. Error texts and the order of ids are not compared."),
 "C03": dict(engine="dispatch", design="§5 C03", technique="TLC deadlock-freedom and liveness (Terminated, PromptOnCancel with collector-only fairness) on Dispatch.tla + directed runs of the real Send with the context cancelled at every hook position while nodes are held inside Process",
   text="Model checking of termination: no reachable stuck state, eventual quiescence under fairness, prompt return after cancel with fairness on the collector only. The real Send is run with cancellation injected at every (hook point, instance) position with all node returns held until Send has returned; a watchdog and a goroutine dump decide return and leak freedom; traces are validated by TLC.",
   note="Trusted: runtime.Stack shows goroutines of Send under eventlogger.(*graph) frames; 5 s watchdog with nodes held (not a latency assertion)."),
 "C05": dict(engine="registry", design="§5 C05", technique="TLC exhaustive check of Registry.tla + Validate.tla; spec->code replay of every model transition, simulated walks and all acceptance vectors on the real Broker",
   text="Model checking of the registry model (all histories to the depth bound, all node-type sequences up to the length bound) with the model bound to the real Broker by replaying every transition: result class of every call, deliveries, IsAnyPipelineRegistered and in-use probes are compared on every edge.",
   note="Trusted: harness node logs; bounded depth (exhaustive) plus random walks beyond it; options passed are well-formed except where the model passes an invalid policy."),
 "C06": dict(engine="registry", design="§5 C06", technique="TLC exhaustive check of Registry.tla (RefcMatches, NoDoubleClose, ClosedExactlyUnlisted) + spec->code graph/walk replay with RemoveNode probes on replayed copies",
   text="Model checking of reference counting and close-once rules over all histories to the depth bound; every model transition and walk step is executed on the real Broker and the in-use status of every node id is probed on a replayed copy after every edge, with Close counted per node object.",
   note="Trusted: harness node Close counters; which object version is closed for a re-registered id is not demanded."),
 "C07": dict(engine="registry", design="§5 C07", technique="TLC exhaustive check of Registry.tla (DenySticky*, PolicyFollowsLastRegistration, InvalidRejected, CapturedVersionsStable) + spec->code replay with per-version marker nodes",
   text="Model checking of the overwrite-policy rules over all policy/removal histories to the depth bound, bound to the code by replaying every transition and observing which node object versions a Send reaches.",
   note="Sequential histories here; overwrites racing with Sends are decided by the concurrent-history check (BrokerConc) when registered."),
 "C20": dict(engine="registry", design="§5 C20", technique="TLC-enumerated registry states (Registry.tla) replayed on the real Broker; Broker.Reopen observed in every state, with each single node failing",
   text="Every registry state of the bounded model (and of simulated walks) is reconstructed on a real Broker; Broker.Reopen must reach every node object of every registered pipeline and, with each single node failing in turn, return an error carrying that failure.",
   note="Trusted: harness node Reopen counters."),
}
ENGINES = [
 {"name": "encrypt", "path": "spec/encrypt + harness/encrep + lib/fam_encrypt.py", "serves_properties": ["C09", "C10", "C16"], "kind_free_text": "TLA+ decision tables / shape grammar / key epochs, one implementation test per model state"},
 {"name": "sinks", "path": "spec/sinks + harness/sinksrep + lib/fam_sinks.py", "serves_properties": ["C13"], "kind_free_text": "TLA+ decision table + concurrent-call model, vector replay on real sinks"},
 {"name": "filesink", "path": "spec/filesink + harness/fsrep + lib/fam_filesink.py", "serves_properties": ["C08", "C15"], "kind_free_text": "TLA+ models of FileSink (API level and step level with crash), TLC exhaustive, Go replayer, crash child"},
 {"name": "locks", "path": "spec/locks + harness/locks + lib/fam_locks.py", "serves_properties": ["C12"], "kind_free_text": "TLA+ model of Broker.lock / node mutex with re-entrant callbacks, TLC deadlock + liveness, watchdog scenarios on the real Broker"},
 {"name": "gated", "path": "spec/gated + harness/gatedrep + lib/fam_gated.py", "serves_properties": ["C11", "C17"], "kind_free_text": "TLA+ model of gated.Filter, TLC exhaustive + simulation, Go replayer"},
 {"name": "dispatch", "path": "spec/dispatch + harness/dispatch + lib/fam_dispatch.py", "serves_properties": ["C01", "C02", "C03"], "kind_free_text": "TLA+ model of graph.process/doProcess, TLC exhaustive + liveness, trace validation of recorded Sends"},
 {"name": "registry", "path": "spec/registry + harness/registry + lib/fam_registry.py", "serves_properties": ["C05", "C06", "C07", "C20"], "kind_free_text": "TLA+ model of the Broker registry, TLC exhaustive + simulation, Go replayer"},
]
NOT_YET = {}
props = [json.loads(l)["id"] for l in open(os.path.join(V, "properties.jsonl"))]
m = {"version": 1,
     "setup_cmd": "bin/setup",
     "hooks": {"guard": "verif (Go build tag)", "enable": "go build -tags verif (the harness module replaces github.com/hashicorp/eventlogger with /repo)",
               "baseline_off_cmd": "bin/baseline_off.sh", "source_commits": hook_commits, "add_only": True},
     "engines": ENGINES, "checks": [], "not_applicable": [],
     "notes": "All checks: bin/check <ID> --tier quick|thorough. Exit 2 = check broken (no verdict). See DESIGN.md."}
for pid in props:
    if pid in CHECKS:
        c = CHECKS[pid]
        m["checks"].append({"property_id": pid, "quick_cmd": "bin/check %s --tier quick" % pid, "thorough_cmd": "bin/check %s --tier thorough" % pid,
                            "evidence_file": "evidence/%s.json" % pid, "replay_cmd_template": "bin/check %s --replay {path}" % pid, "engine": c["engine"],
                            "level_claimed": {"category": "model_checking", "text": c["text"], "design_ref": c["design"]},
                            "level_note": c["note"], "technique": c["technique"]})
    else:
        m["not_applicable"].append({"property_id": pid, "reason": NOT_YET.get(pid, "check under construction in this session: the TLA+ module and its binding are designed (DESIGN.md §5) but not yet registered")})
json.dump(m, open(os.path.join(V, "MANIFEST.json"), "w"), indent=1)
print("checks:", len(m["checks"]), "not_applicable:", len(m["not_applicable"]))
