#!/bin/bash
# Runs the repository's pinned test suite with the verif guard OFF (no build tag).
export GOFLAGS=-mod=mod GOPROXY=off GOSUMDB=off GOTOOLCHAIN=local
rc=0
for m in . ./filters/encrypt; do
  (cd /repo/$m && go test -mod=mod -json -vet=off -count=1 -timeout 25m ./...) || rc=1
done
exit $rc
