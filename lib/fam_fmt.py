"""Formatter family: C14. Model: spec/formatter/Formatter.tla (outcome table + format table as a register map). Binding: vector replay with decoding."""
import json, os, time
from vlib import *


def run(prop, tier, seed, out):
    quick = tier == "quick"
    with Scratch("fmt") as scr:
        vh = build_harness(scr)
        vec = run_tlc(scr, "formatter", "Formatter", 'CONSTANTS\n  Writers = {1}\n  Keys = {"a"}\n  MaxVal = 1\nSPECIFICATION SpecVec\nINVARIANTS ErrorStoresNothing ForwardIffPredicate Export\nCHECK_DEADLOCK FALSE\n',
                      "vectors", workers=1, timeout=300, heap="2g")
        if vec.violated:
            raise Broken("Formatter.tla violates " + vec.violated)
        must_pass(vec, "Formatter vectors")
        out.add_tlc(vec)
        tab = run_tlc(scr, "formatter", "Formatter", 'CONSTANTS\n  Writers = {1, 2%s}\n  Keys = {"a", "b"}\n  MaxVal = 3\nSPECIFICATION SpecTab\nINVARIANTS LastWriterWins ReadsSeeWrittenValues\nCHECK_DEADLOCK FALSE\n' % ("" if quick else ", 3"),
                      "table", workers=2, timeout=600, heap="2g")
        if tab.violated:
            raise Broken("Formatter.tla (table) violates " + tab.violated)
        must_pass(tab, "Formatter table")
        out.add_tlc(tab)
        outp = scr.path("fmt.json")
        t0 = time.time()
        p = run_vh(vh, ["fmt-replay", "-vectors", vec.out_path, "-seed", str(seed), "-n", "20" if quick else "2000", "-out", outp], timeout=2400)
        if p.returncode != 0:
            raise Broken("fmt-replay failed: " + p.stderr[-1500:])
        r = json.load(open(outp))
        log("  fmt-replay %.1fs vectors=%d runs=%d mismatches=%d" % (time.time() - t0, r["vectors"], r["runs"], r["mismatch_count"]))
        cov = out.coverage
        cov["traces_validated_against_impl"] = r["runs"]
        cov["evaluations"] = r["runs"]
        cov["distinct_nontrivial"] = r["distinct_nontrivial"]
        cov["rule"] = ("one evaluation = one random member of a payload class (19 classes incl. NaN/Inf, control and non-UTF-8 strings, unsupported kinds, nesting) x node x "
                       "event-type class x predicate outcome, run through the real formatter and decoded; non-trivial = vectors whose JSON line is stored and decoded")
        cov["samples"] = r.get("samples") or []
        out.assumptions += ["encoding/json's decoder and an independent json.Marshal of the snapshot define the payload's JSON image"]
        if r["vectors"] < 100:
            raise Broken("too few vectors")
        for m in r["mismatches"] or []:
            out.violation("%s: expected %s, observed %s (vector %s)" % (m["what"], json.dumps(m["expected"])[:150], json.dumps(m["observed"])[:150], json.dumps(m.get("vector"))[:200]), m)
