"""Registry family: C05 C06 C07 C20 (and the registry half of C01/C02).

Model: spec/registry/Registry.tla (+ Validate.tla). Binding: spec -> code replay of the
complete transition graph of a bounded model and of simulated walks on a real Broker."""
import shutil, json, os, time, concurrent.futures as cf
from vlib import *

PROPS = ["C05", "C06", "C07", "C20"]

BASE_CONST = '''CONSTANTS
  Types = {"t1", "t2"}
  PIDs = {%(pids)s}
  NIDs = {"a", "m", "s", "g"}
  Lists <- %(lists)s
  KindOf <- McKind
  CloseFails = {"g"}
  PreNodes = {%(pre)s}
  ThrVals <- %(thr)s
  MaxDepth = %(depth)d
  Dev = {%(dev)s}
'''
INVS = "INVARIANTS RefcMatches InUseIffListed NoDoubleClose ListedAreRegistered OnlyWellFormedRegistered ThresholdsPerType\n"
PROPS_CFG = ("PROPERTIES FailedChangesNothing ClosedExactlyUnlisted DenyStickyPipes DenyStickyNodes PolicyFollowsLastRegistration "
             "InvalidRejected CapturedVersionsStable NegativeThresholdRejected ThresholdOnlyItsType\n")
DEVIATIONS = ["overwrite_leaks", "rp_keeps_refs", "count_per_occurrence", "flatten_truncates"]

RCFG = {"types": ["t1", "t2"], "nids": ["a", "m", "s", "g"],
        "kinds": {"a": "filter", "g": "filter", "m": "formatter", "s": "sink"}, "close_fails": ["g"]}


def consts(depth, dev="", pids='"p1", "p2"', lists="McLists", thr="McNoThr", pre=""):
    return BASE_CONST % dict(depth=depth, dev=dev, pids=pids, lists=lists, thr=thr, pre=pre)


def design(scr, depth, name="design", thr="McNoThr", workers=8, timeout=1500):
    cfg = consts(depth, thr=thr) + "SPECIFICATION Spec\nVIEW View\n" + INVS + PROPS_CFG + "CHECK_DEADLOCK FALSE\n"
    return run_tlc(scr, "registry", "MCRegistry", cfg, name, workers=workers, timeout=timeout)


def deviation_check(scr, dev, depth=6):
    cfg = consts(depth, dev='"%s"' % dev) + "SPECIFICATION Spec\nVIEW View\n" + INVS + "CHECK_DEADLOCK FALSE\n"
    return run_tlc(scr, "registry", "MCRegistry", cfg, "dev-" + dev, workers=4, timeout=600, heap="4g")


ALLPRE = '"a", "m", "s", "g"'


def export_graph(scr, depth, thr="McNoThr", name="export", lists="McLists", pre=""):
    cfg = consts(depth, thr=thr, lists=lists, pre=pre) + "SPECIFICATION SpecE\nVIEW View\nCHECK_DEADLOCK FALSE\n"
    return run_tlc(scr, "registry", "MCRegistry", cfg, name, workers=1, timeout=1800)


def export_walks(scr, num, depth, seed, thr="McThr", pids='"p1", "p2", "p3"', name="walks"):
    cfg = consts(depth, thr=thr, pids=pids, lists="McListsBig") + "SPECIFICATION SpecS\nCHECK_DEADLOCK FALSE\n"
    return run_tlc(scr, "registry", "MCRegistrySim", cfg, name, workers=4, timeout=1800,
                   simulate="num=%d" % max(1, num // 4), depth=depth + 2, seed=seed)


def export_validate(scr, maxlen):
    cfg = "CONSTANTS MaxLen = %d\nSPECIFICATION Spec\nINVARIANTS Agree Export\nCHECK_DEADLOCK FALSE\n" % maxlen
    return run_tlc(scr, "registry", "Validate", cfg, "validate", workers=1, timeout=1800)


def replay(vh, scr, seed, edges=None, walks=None, tag="r"):
    cfgp = scr.path("rcfg-%s.json" % tag)
    json.dump(dict(RCFG, seed=seed), open(cfgp, "w"))
    outp = scr.path("rep-%s.json" % tag)
    args = ["registry-replay", "-cfg", cfgp, "-out", outp]
    if edges:
        args += ["-edges", edges]
    if walks:
        args += ["-walks", walks]
    t0 = time.time()
    p = run_vh(vh, args, timeout=3000)
    if p.returncode != 0:
        raise Broken("registry replay failed: " + p.stderr[-2000:])
    r = json.load(open(outp))
    if r.get("hung"):
        log("  replay %s: %d replays abandoned, a Broker call did not return" % (tag, r["hung"]))
    log("  replay %-10s %6.1fs edges=%d walks=%d calls=%d mismatches=%d" % (tag, time.time() - t0, r["edges"], r["walks"], r["calls"], r["mismatch_count"]))
    return r


def light_binding(vh, scr, seed, quick):
    """Registry graph replay used by other families (C01/C02 registry half): plain graph + prelude graph + thresholds graph."""
    import concurrent.futures as cf2
    with cf2.ThreadPoolExecutor(max_workers=3) as ex:
        f1 = ex.submit(export_graph, scr, 4 if quick else 5)
        f2 = ex.submit(export_graph, scr, 3, "McThr", "export-thr", "McListsBig")
        f3 = ex.submit(export_graph, scr, 3, "McNoThr", "export-pre", "McLists", ALLPRE)
        # thresholds set before / between registrations, nodes already there: the graph of a type may be created by a threshold setter
        f4 = ex.submit(export_graph, scr, 2, "McThr", "export-prethr", "McLists", ALLPRE)
        reps = []
        for tag, f, sd in (("graph", f1, seed), ("graph-thr", f2, seed + 1), ("graph-pre", f3, seed + 3), ("graph-prethr", f4, seed + 4)):
            g = must_pass(f.result(), "registry export " + tag)
            reps.append((tag, replay(vh, scr, sd, edges=g.out_path, tag=tag), g))
    return reps


RTRACE_CFG = """SPECIFICATION TSpec
CONSTANTS
  Types = {"t"}
  PIDs = {"p", "q"}
  NIDs = {"a", "m", "s", "g"}
  Lists <- TrLists
  KindOf <- TrKind
  CloseFails = {}
  PreNodes = {}
  ThrVals <- TrThr
  MaxDepth = 100000
  Dev = {}
VIEW TView
INVARIANTS Report RefcMatches NoDoubleClose ListedAreRegistered OnlyWellFormedRegistered
CHECK_DEADLOCK FALSE
"""


def validate_hist(scr, hist, tag):
    wd = scr.path("tlc-rtrace-" + tag)
    shutil.copytree(os.path.join(VERIF, "spec", "registry"), wd)
    shutil.copy(hist, os.path.join(wd, "rconc.ndjson"))
    res = run_tlc(scr, "registry", "RegistryTrace", RTRACE_CFG, "rtrace-" + tag, workers=8, timeout=2400, heap="8g")
    acc = set()
    for line in open(res.out_path, errors="replace"):
        if line.startswith('<<"ACCEPT"'):
            acc.add(int(line.strip().strip("<>").split(",")[1]))
    ids = [json.loads(l)["id"] for l in open(hist) if l.strip()]
    return acc, ids, res


def conc_traces(vh, scr, prop, seed, quick, out):
    """Code -> spec: concurrent histories of the registry API, linearised by TLC against Registry.tla's own actions."""
    hist = scr.path("rconc.ndjson")
    t0 = time.time()
    p = run_vh(vh, ["registry-hist", "-seed", str(seed), "-n", "240" if quick else "3000", "-hist", hist], timeout=1800)
    if p.returncode != 0:
        if "panic" in p.stderr or "fatal error" in p.stderr:
            out.violation("the process died during concurrent registry calls: " + p.stderr[:300], {"stderr": p.stderr[-4000:]})
            return 0
        raise Broken("registry-hist failed: " + p.stderr[-1500:])
    acc, ids, res = validate_hist(scr, hist, "real")
    if res.error:
        raise Broken("RegistryTrace validation failed: " + str(res.error))
    if res.violated and res.violated != "Report":
        raise Broken("RegistryTrace: invariant %s violated on a matched prefix (specification error)" % res.violated)
    out.add_tlc(res)
    log("  registry-hist %5.1fs histories=%d accepted=%d" % (time.time() - t0, len(ids), len(acc)))
    hs = {json.loads(l)["id"]: json.loads(l) for l in open(hist) if l.strip()}
    for i in ids:
        if i not in acc:
            out.violation("concurrent registry history %d (%d goroutines) has no linearisation: the results of the calls and the quiescent state (which nodes are in use / unused / "
                          "unknown, whether a pipeline is registered) are not those of any order of atomic calls" % (i, hs[i]["g"]), {"history": hs[i]})
    # binding self-test: change the result of one of the sequential probes at the end
    cp = scr.path("rconc-corrupt.ndjson")
    k = 0
    with open(cp, "w") as f:
        for l in open(hist):
            h = json.loads(l)
            probes = [r for r in h["h"] if r["k"] == "resp" and r["r"] in ("inuse", "ok", "notfound")]
            if len(probes) < 4:
                continue
            r = probes[-1 - (k % 4)]
            r["r"] = {"inuse": "ok", "ok": "inuse", "notfound": "ok"}[r["r"]]
            f.write(json.dumps(h) + "\n")
            k += 1
            if k >= 12:
                break
    acc2, ids2, res2 = validate_hist(scr, cp, "selftest")
    # In a concurrent history two orders of the calls may leave different final states with the same call results, so a
    # changed probe can (rarely) be the other order's answer: the binding is wrong only if changed probes pass as a rule.
    if k < 5 or len(acc2) * 4 > k:
        raise Broken("registry self-test: corrupted histories accepted: %s (of %d)" % (sorted(acc2)[:5], k))
    out.notes.append("binding self-test: %d of %d histories with one quiescent probe result changed were rejected by RegistryTrace" % (k - len(acc2), k))
    out.coverage["concurrent_histories_validated"] = len(ids)
    return len(ids)


def run(prop, tier, seed, out):
    quick = tier == "quick"
    with Scratch("reg") as scr:
        vh = build_harness(scr)
        with cf.ThreadPoolExecutor(max_workers=6) as ex:
            # 1. exhaustive design check (Dev = {}): all invariants and action properties
            f_design = ex.submit(design, scr, 5 if quick else 6)
            f_thr = ex.submit(design, scr, 4 if quick else 5, "design-thr", "McThr", 4)
            # 2. vacuity guard: every named deviation must break an invariant
            f_dev = {d: ex.submit(deviation_check, scr, d) for d in DEVIATIONS}
            # 3. behaviours for the binding
            f_graph = ex.submit(export_graph, scr, 4 if quick else 5)
            f_graph_thr = ex.submit(export_graph, scr, 3 if quick else 4, "McThr", "export-thr", "McListsBig")
            f_graph_pre = ex.submit(export_graph, scr, 3 if quick else 4, "McNoThr", "export-pre", "McLists", ALLPRE)
            f_graph_prethr = ex.submit(export_graph, scr, 2 if quick else 3, "McThr", "export-prethr", "McLists", ALLPRE)
            f_walks = ex.submit(export_walks, scr, 150 if quick else 2000, 24 if quick else 60, seed)
            f_val = ex.submit(export_validate, scr, 4 if quick else 5) if prop == "C05" else None

            graph = must_pass(f_graph.result(), "graph export")
            rep = replay(vh, scr, seed, edges=graph.out_path, tag="graph")
            graph2 = must_pass(f_graph_thr.result(), "graph export (thresholds)")
            rep2 = replay(vh, scr, seed + 1, edges=graph2.out_path, tag="graph-thr")
            graph3 = must_pass(f_graph_pre.result(), "graph export (prelude)")
            rep4 = replay(vh, scr, seed + 3, edges=graph3.out_path, tag="graph-pre")
            graph4 = must_pass(f_graph_prethr.result(), "graph export (prelude + thresholds)")
            rep5 = replay(vh, scr, seed + 4, edges=graph4.out_path, tag="graph-prethr")
            walks = f_walks.result()
            if walks.error and "simulation" not in (walks.error or ""):
                raise Broken("walk export: " + str(walks.error))
            rep3 = replay(vh, scr, seed + 2, walks=walks.out_path, tag="walks")
            vrep = None
            if f_val:
                val = f_val.result()
                if val.violated == "Agree":
                    out.violation("model: SpecAccepts and ImplAccepts disagree (Validate.tla)", {"tlc": val.out[-3000:]})
                must_pass(val, "Validate")
                p = run_vh(vh, ["validate-replay", "-vectors", val.out_path, "-out", scr.path("vrep.json")], timeout=1800)
                if p.returncode != 0:
                    raise Broken("validate replay failed: " + p.stderr[-2000:])
                vrep = json.load(open(scr.path("vrep.json")))
                out.add_tlc(val)

            d = f_design.result()
            dt = f_thr.result()
            for r, nm in ((d, "design"), (dt, "design-thr")):
                if r.violated:
                    raise Broken("the intended-design model violates %s (%s): specification error" % (r.violated, nm))
                must_pass(r, nm)
                out.add_tlc(r)
            for dv, f in f_dev.items():
                r = f.result()
                if not r.violated:
                    raise Broken("deviation %s does not break any invariant: the invariants are vacuous for it" % dv)
            out.notes.append("vacuity: each of %s alone violates an invariant of Registry" % ", ".join(DEVIATIONS))

        reports = [("graph", rep), ("graph-thr", rep2), ("graph-pre", rep4), ("graph-prethr", rep5), ("walks", rep3)]
        total_edges = sum(r["edges"] for _, r in reports)
        total_walks = sum(r["walks"] for _, r in reports)
        if total_edges < 100 or total_walks < 10:
            raise Broken("replay covered too little: %d edges, %d walks" % (total_edges, total_walks))
        cov = out.coverage
        cov["traces_validated_against_impl"] = total_edges + total_walks + (vrep["vectors"] if vrep else 0)
        cov["evaluations"] = sum(r["comparisons"] for _, r in reports) + (vrep["vectors"] if vrep else 0)
        cov["distinct_nontrivial"] = sum(r["distinct_nontrivial"] for _, r in reports) + (vrep["accepted"] if vrep else 0)
        cov["rule"] = ("every transition of the bounded Registry model (spanning-tree path + action) and every step of simulated walks is "
                       "executed on a fresh real Broker; non-trivial = distinct histories ending in a state-changing (non-failing) call")
        cov["impl_calls"] = sum(r["calls"] for _, r in reports)
        cov["action_counts"] = {k: sum(r["action_counts"].get(k, 0) for _, r in reports) for k in set().union(*[r["action_counts"] for _, r in reports])}
        cov["exhaustive"] = True
        cov["explanation"] = ("states/transitions: TLC exhaustive runs of Registry (Dev={}) with all invariants and action properties; "
                              "traces: model transitions/walks/vectors replayed on the real Broker with every comparison made")
        for _, r in reports:
            cov["samples"] += r.get("samples") or []
        if vrep:
            cov["samples"] += vrep.get("samples") or []
            cov["validate_vectors"] = vrep["vectors"]
        out.assumptions += ["harness nodes' own call logs and Close/Reopen counters are truthful",
                            "event pointer identity identifies the traversal a call belongs to"]
        drift = sum(r["drift_count"] for _, r in reports)
        if drift:
            out.notes.append("MODEL-DRIFT: %d comparisons outside the enforced observables differ (graph-entry bookkeeping)" % drift)
        for nm, r in reports:
            for m in (r["mismatches"] or []):
                if m.get("drift"):
                    continue
                if prop in m["props"]:
                    out.violation("%s: %s: expected %s, real broker %s" % (nm, m["what"], json.dumps(m["expected"])[:200], json.dumps(m["observed"])[:200]), m)
                else:
                    out.notes.append("mismatch attributed to %s (not %s): %s" % (",".join(m["props"]), prop, m["what"]))
            if r["by_prop"].get(prop, 0) and not out.violations:
                out.violation("%s: %d mismatches attributed to %s" % (nm, r["by_prop"][prop], prop), (r["mismatches"] or [])[:3])
            if r.get("hung") and not out.violations:
                raise Broken("%s: the real Broker stopped answering while the model's histories were replayed (a call never returned: property C12); "
                             "%s cannot be decided on this tree" % (nm, prop))
        if prop == "C06":
            # unbounded histories: the reference-counting core with an inductive invariant, discharged by Apalache
            base = ["--cinit=CInit"]
            obligations = [("init", base + ["--init=Init", "--inv=IndInv", "--length=0"]),
                           ("step", base + ["--init=IndInit", "--inv=IndInv", "--length=1"]),
                           ("in-use-iff-listed", base + ["--init=IndInit", "--inv=InUseIffListed", "--length=0"]),
                           ("nothing-pinned", base + ["--init=IndInit", "--inv=NothingPinned", "--length=0"])]
            if quick:
                obligations = obligations[:2]
            for nm, a in obligations:
                r = run_apalache(scr, "registry/apalache", "RegistryInd", a, nm)
                if r != "NoError":
                    raise Broken("Apalache obligation %s of RegistryInd not discharged: %s" % (nm, r))
            # vacuity: without the release in RemovePipeline the inductive step must fail
            r = run_apalache(scr, "registry/apalache", "RegistryInd", base + ["--init=IndInit", "--inv=IndInv", "--length=1"], "step-mutated",
                             mutate=("THEN refc[n] - 1 ELSE refc[n]]\n  /\\ UNCHANGED reg", "THEN refc[n] ELSE refc[n]]\n  /\\ UNCHANGED reg"))
            if r != "Error":
                raise Broken("the inductive step still holds when RemovePipeline releases nothing (vacuous): " + r)
            out.coverage["apalache_obligations_discharged"] = [nm for nm, _ in obligations]
            out.notes.append("Apalache: IndInv (RefcMatches, ListedAreRegistered, ...) is inductive for RegistryInd: the accounting holds for histories of any length")
        if prop in ("C05", "C06", "C07"):
            conc_traces(vh, scr, prop, seed, quick, out)
            # concurrent clients: overwrites racing with Sends (every Send is processed by exactly one version), DenyOverwrite races,
            # conflicting registry calls released from a barrier (results and final state of one of the two sequential orders)
            hp, rp = scr.path("c07.ndjson"), scr.path("c07.json")
            p = run_vh(vh, ["conc-record", "-seed", str(seed), "-n", "2", "-rounds", "10", "-hist", hp, "-out", rp], timeout=900)
            if p.returncode != 0:
                if "panic" in p.stderr or "fatal error" in p.stderr:
                    out.violation("process died during overwrites racing with Sends: " + p.stderr[:300], {"stderr": p.stderr[-3000:]})
                else:
                    raise Broken("conc-record failed: " + p.stderr[-1000:])
            else:
                for pr in json.load(open(rp))["problems"]:
                    if pr["prop"] == prop:
                        out.violation(pr["what"], pr)
                    else:
                        out.notes.append("concurrent stress problem attributed to %s (not %s): %s" % (pr["prop"], prop, pr["what"][:140]))
                out.coverage["concurrent_stress"] = "overwrite stress (8 senders vs one overwriting client, 400 ms), DenyOverwrite races, shared-node removals, atomicity races of conflicting calls"
        if vrep and prop == "C05":
            for m in vrep["mismatches"] or []:
                out.violation("validate: %s: expected %s, real broker %s" % (m["what"], json.dumps(m["expected"])[:200], json.dumps(m["observed"])[:300]), m)
        out.notes = sorted(set(out.notes))[:12]
