"""Sinks family: C13. Model: spec/sinks/Sinks.tla (decision table + writer.Sink under concurrent calls).
Binding: every vector replayed on the real writer.Sink / FileSink / ChannelSink with recording writers."""
import json, os, time, concurrent.futures as cf
from vlib import *


def run(prop, tier, seed, out):
    quick = tier == "quick"
    with Scratch("sinks") as scr:
        vh = build_harness(scr)
        vec = run_tlc(scr, "sinks", "Sinks", 'CONSTANTS\n  Callers = {1}\n  Dev = {}\nSPECIFICATION SpecVec\nINVARIANTS MissingFormatIsError WriteFailureIsError '
                      'AckImpliesWritten ExactlyOneOutcome NeverBlocksPastMin ExportVec\nCHECK_DEADLOCK FALSE\n', "vectors", workers=1, timeout=300, heap="2g")
        if vec.violated:
            raise Broken("Sinks.tla table violates " + vec.violated)
        must_pass(vec, "Sinks vectors")
        out.add_tlc(vec)
        callers = "1, 2, 3" if quick else "1, 2, 3, 4"
        conc = run_tlc(scr, "sinks", "Sinks", 'CONSTANTS\n  Callers = {%s}\n  Dev = {}\nSPECIFICATION SpecConc\nINVARIANTS AckWholeContiguousOnce\nCHECK_DEADLOCK FALSE\n' % callers,
                       "conc", workers=2, timeout=600, heap="2g")
        if conc.violated:
            raise Broken("Sinks.tla (concurrent) violates " + conc.violated)
        must_pass(conc, "Sinks conc")
        out.add_tlc(conc)
        dev = run_tlc(scr, "sinks", "Sinks", 'CONSTANTS\n  Callers = {1, 2}\n  Dev = {"no_mutex"}\nSPECIFICATION SpecConc\nINVARIANTS AckWholeContiguousOnce\nCHECK_DEADLOCK FALSE\n',
                      "dev", workers=1, timeout=300, heap="2g")
        if not dev.violated:
            raise Broken("deviation no_mutex does not violate AckWholeContiguousOnce (vacuous)")
        # several calls in flight on one ChannelSink: every call has its own bound (ChannelConc.tla); a shared timer loses wake-ups
        CH = ('CONSTANTS\n  Callers = {1, 2, 3}\n  T = 3\n  MaxNow = 9\n  Consumes = %d\n  CtxAt <- Ctx\n  Dev = {%s}\n'
              'SPECIFICATION Spec\nINVARIANTS NeverBlockedPastBound DeliveredAreTaken\nCHECK_DEADLOCK FALSE\n')
        for k in (0, 1, 2):
            cc = run_tlc(scr, "sinks", "MCChannelConc", CH % (k, ""), "chanconc-%d" % k, workers=2, timeout=600, heap="2g")
            if cc.violated:
                raise Broken("ChannelConc.tla violates " + cc.violated)
            must_pass(cc, "ChannelConc")
            out.add_tlc(cc)
        ccd = run_tlc(scr, "sinks", "MCChannelConc", CH % (1, '"shared_timer"'), "chanconc-dev", workers=1, timeout=300, heap="2g")
        if not ccd.violated:
            raise Broken("deviation shared_timer does not violate NeverBlockedPastBound (vacuous)")
        outp = scr.path("srep.json")
        t0 = time.time()
        p = run_vh(vh, ["sinks-replay", "-vectors", vec.out_path, "-seed", str(seed), "-n", "2" if quick else "60", "-out", outp], timeout=3000)
        if p.returncode != 0:
            raise Broken("sinks-replay failed: " + p.stderr[-1500:])
        r = json.load(open(outp))
        log("  sinks-replay %.1fs vectors=%d runs=%d mismatches=%d" % (time.time() - t0, r["vectors"], r["runs"], r["mismatch_count"]))
        cov = out.coverage
        cov["traces_validated_against_impl"] = r["runs"]
        cov["evaluations"] = r["runs"]
        cov["distinct_nontrivial"] = r["distinct_nontrivial"]
        cov["rule"] = ("one evaluation = one vector of the Sinks decision table (format table x configured format x writer behaviour x sink kind, or channel-ready x timeout x cancel "
                       "instants) run on the real sink with 1, 4 and 16 concurrent callers and random format contents; non-trivial = vectors whose expected outcome is success/delivery")
        cov["samples"] = r.get("samples") or []
        cov["exhaustive"] = True
        out.assumptions += ["the harness writer is deliberately slow and flags overlapping Write calls; logical instants are 70 ms apart with 45 ms slack"]
        if r["vectors"] < 100:
            raise Broken("too few vectors")
        for m in r["mismatches"] or []:
            out.violation("%s: expected %s, observed %s (vector %s)" % (m["what"], json.dumps(m["expected"])[:150], json.dumps(m["observed"])[:150], json.dumps(m["vector"])[:200]), m)
