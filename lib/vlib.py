"""Common machinery of the checks: scratch dirs, TLC runner, harness build, findings, evidence."""
import json, os, re, shutil, subprocess, sys, tempfile, time, hashlib

VERIF = os.path.dirname(os.path.dirname(os.path.abspath(__file__)))
REPO = os.environ.get("VERIF_REPO", "/repo")
TLA_CP = "/opt/veriftools/tla/tla2tools.jar:/opt/veriftools/tla/CommunityModules-deps.jar"
NCPU = os.cpu_count() or 4

GOENV = dict(os.environ, GOFLAGS="-mod=mod", GOPROXY="off", GOSUMDB="off", GOTOOLCHAIN="local")


class Broken(Exception):
    """The check itself could not run (exit 2) - never a verdict about the code."""


def log(*a):
    print(*a, flush=True)


class Scratch:
    def __init__(self, name="verif"):
        self.dir = tempfile.mkdtemp(prefix=name + "-")

    def path(self, *p):
        return os.path.join(self.dir, *p)

    def cleanup(self):
        shutil.rmtree(self.dir, ignore_errors=True)

    def __enter__(self):
        return self

    def __exit__(self, *a):
        if os.environ.get("VERIF_KEEP"):
            log("scratch kept:", self.dir)
        else:
            self.cleanup()


# ---------------------------------------------------------------- harness build
def build_harness(scr, race=False):
    """Builds /verif/harness against REPO's current working tree with the verif tag."""
    out = scr.path("vh-race" if race else "vh")
    hdir = os.path.join(VERIF, "harness")
    args = []
    if REPO != "/repo":
        mod = open(os.path.join(hdir, "go.mod")).read().replace("=> /repo/filters/encrypt", "=> %s/filters/encrypt" % REPO).replace("=> /repo\n", "=> %s\n" % REPO)
        mf = scr.path("go.alt.mod")
        open(mf, "w").write(mod)
        shutil.copy(os.path.join(hdir, "go.sum"), scr.path("go.alt.sum"))
        args = ["-modfile=" + mf]
    go = "go1.26.8" if race else "go"
    cmd = [go, "build", "-tags", "verif"] + args + (["-race"] if race else []) + ["-o", out, "./cmd/vh"]
    t0 = time.time()
    p = subprocess.run(cmd, cwd=hdir, env=GOENV, stdout=subprocess.PIPE, stderr=subprocess.STDOUT, text=True)
    if p.returncode != 0:
        raise Broken("harness build failed:\n" + p.stdout[-4000:])
    log("  built harness%s in %.1fs" % (" (-race)" if race else "", time.time() - t0))
    return out


def run_vh(binary, args, timeout=1200, env=None, stdout=None):
    timeout = max(timeout, 2400)   # see run_tlc: only a guard against a harness that never ends
    e = dict(os.environ)
    # temporary files of the harness live inside the scratch directory of the check (next to the binary), so that
    # they disappear with it even when the harness process is killed or dies on a race report
    td = os.path.join(os.path.dirname(os.path.abspath(binary)), "tmp")
    os.makedirs(td, exist_ok=True)
    e["TMPDIR"] = td
    if env:
        e.update(env)
    try:
        p = subprocess.run([binary] + args, stdout=stdout or subprocess.PIPE, stderr=subprocess.PIPE, text=True, timeout=timeout, env=e)
    except subprocess.TimeoutExpired:
        raise Broken("harness timed out: vh " + " ".join(args[:3]))
    return p


# ---------------------------------------------------------------- TLC
class TLCResult:
    def __init__(self):
        self.rc = None
        self.out = ""
        self.out_path = None
        self.generated = 0
        self.distinct = 0
        self.depth = 0
        self.violated = None   # name of violated invariant/property or None
        self.error = None      # TLC error that is not a property violation
        self.wall = 0.0


def run_tlc(scr, specdir, module, cfg_text, name, workers=8, timeout=900, heap="8g", simulate=None, seed=None,
            depth=None, extra=None, gcthreads=4, to_file=False, deadlock=False, queue_dfs=False, coverage=False):
    """Runs TLC in a private copy of specdir. cfg_text is the complete .cfg contents."""
    # a time limit only guards against a run-away model: on a loaded or small machine the bounded models take several
    # times their usual seconds, and a limit that is hit turns a sound check into a broken one
    timeout = max(timeout, 2400)
    wd = scr.path("tlc-" + name)
    if not os.path.isdir(wd):
        shutil.copytree(os.path.join(VERIF, "spec", specdir), wd)
    cfg = os.path.join(wd, name + ".cfg")
    open(cfg, "w").write(cfg_text)
    tmpd = os.path.join(wd, "jtmp-" + name)
    os.makedirs(tmpd, exist_ok=True)
    cmd = ["java", "-Djava.io.tmpdir=" + tmpd, "-Xmx" + heap, "-Xss64m", "-XX:+UseParallelGC", "-XX:ParallelGCThreads=%d" % gcthreads]
    if queue_dfs:
        cmd.append("-Dtlc2.tool.queue.IStateQueue=StateDeque")
    cmd += ["-cp", TLA_CP, "tlc2.TLC", "-workers", str(workers), "-metadir", os.path.join(wd, "md-" + name), "-config", cfg]
    if not deadlock:
        pass
    if simulate:
        cmd += ["-simulate", simulate]
        if depth:
            cmd += ["-depth", str(depth)]
    if seed is not None:
        cmd += ["-seed", str(seed)]
    if coverage:
        cmd += ["-coverage", "1"]
    if extra:
        cmd += extra
    cmd.append(module + ".tla")
    res = TLCResult()
    res.out_path = os.path.join(wd, name + ".out")
    t0 = time.time()
    with open(res.out_path, "w") as fo:
        try:
            p = subprocess.run(cmd, cwd=wd, stdout=fo, stderr=subprocess.STDOUT, timeout=timeout)
            res.rc = p.returncode
        except subprocess.TimeoutExpired:
            res.rc = -9
            res.error = "timeout after %ds" % timeout
    res.wall = time.time() - t0
    log("  tlc %-14s %6.1fs rc=%s" % (name, res.wall, res.rc))
    # parse the tail for statistics; the body may be huge (exports)
    tail = _tail(res.out_path, 200000)
    res.out = tail
    m = re.search(r"(\d[\d,]*) states generated, (\d[\d,]*) distinct states found", tail)
    if m:
        res.generated = int(m.group(1).replace(",", ""))
        res.distinct = int(m.group(2).replace(",", ""))
    m = re.search(r"The depth of the complete state graph search is (\d+)", tail)
    if m:
        res.depth = int(m.group(1))
    head = open(res.out_path, errors="replace").read(20000) if os.path.getsize(res.out_path) > 0 else ""
    both = head + "\n" + tail
    m = re.search(r"Error: Invariant (\S+) is violated", both)
    if m:
        res.violated = m.group(1)
    m3 = re.search(r"Error: The invariant of (\S+) is equal to FALSE", both)
    if m3:
        res.violated = m3.group(1)
    m2 = re.search(r"Error: Action property (\S+) is violated", both)
    if m2:
        res.violated = m2.group(1)
    if re.search(r"Error: Temporal properties were violated", both):
        res.violated = res.violated or "temporal"
    if re.search(r"Error: Deadlock reached", both):
        res.violated = res.violated or "deadlock"
    if res.violated is None and res.error is None:
        if simulate:
            ok = res.rc == 0 or "The simulation ended" in both or res.rc in (0,)
            if res.rc != 0 and "Error:" in both:
                res.error = _first_error(both)
        else:
            if "Model checking completed. No error has been found." not in both:
                res.error = _first_error(both) or ("TLC exit code %s" % res.rc)
    return res


def _first_error(text):
    m = re.search(r"Error: .*(?:\n.*){0,6}", text)
    return m.group(0)[:1500] if m else None


def _tail(path, n):
    sz = os.path.getsize(path)
    with open(path, "rb") as f:
        if sz > n:
            f.seek(sz - n)
        return f.read().decode(errors="replace")


def tlc_json_lines(path):
    """Yields the JSON values printed by PrintT(ToJson(..)) lines in a TLC output file."""
    with open(path, errors="replace") as f:
        for line in f:
            if line.startswith('"'):
                try:
                    yield json.loads(json.loads(line))
                except Exception:
                    continue


def must_pass(res, what):
    if res.error:
        raise Broken("%s: TLC failed: %s" % (what, res.error))
    return res


# ---------------------------------------------------------------- findings
def load_findings():
    p = os.path.join(VERIF, "known_findings.json")
    if not os.path.exists(p):
        return []
    return json.load(open(p))


def known_for(prop):
    return [f for f in load_findings() if f.get("property") == prop and f.get("status") == "known"]


# ---------------------------------------------------------------- evidence / verdict
class Outcome:
    def __init__(self, prop, tier, seed):
        self.prop = prop
        self.tier = tier
        self.seed = seed
        self.violations = []      # list of dict(what=..., replay=payload)
        self.known = []           # list of strings
        self.notes = []
        self.coverage = {"states": 0, "transitions": 0, "traces_validated_against_impl": 0, "samples": [],
                         "evaluations": 0, "distinct_nontrivial": 0, "rule": ""}
        self.assumptions = []
        self.t0 = time.time()

    def add_tlc(self, res):
        self.coverage["states"] += res.distinct
        self.coverage["transitions"] += res.generated

    def violation(self, what, payload):
        self.violations.append({"what": what, "payload": payload})

    def known_finding(self, text):
        if text not in self.known:
            self.known.append(text)


def finish(out):
    """Writes evidence, prints verdict lines, returns the exit code."""
    # evidence/ describes /repo; a run against another tree (VERIF_REPO: seeded changes, refactorings) leaves it alone
    evdir = os.path.join(VERIF, "evidence") if REPO == "/repo" else os.path.join(VERIF, "replays", "evidence-other-tree")
    os.makedirs(evdir, exist_ok=True)
    cov = out.coverage
    if not cov.get("samples"):
        cov["samples"] = ["(no sample recorded)"]
    cov["samples"] = cov["samples"][:8]
    ev = {"property_id": out.prop, "tier": out.tier, "seed": out.seed, "level": "model_checking", "coverage": cov,
          "assumptions": out.assumptions, "wall_s": round(time.time() - out.t0, 2), "violations": len(out.violations),
          "known_findings": out.known, "notes": out.notes}
    with open(os.path.join(evdir, out.prop + ".json"), "w") as f:
        json.dump(ev, f, indent=1, default=str)
    for k in out.known:
        log("KNOWN-FINDING: property=%s %s" % (out.prop, k))
    for n in out.notes:
        log("note:", n)
    if out.violations:
        rdir = os.path.join(VERIF, "replays", out.prop)
        os.makedirs(rdir, exist_ok=True)
        for i, v in enumerate(out.violations[:5]):
            h = hashlib.sha1(json.dumps(v, sort_keys=True, default=str).encode()).hexdigest()[:10]
            rp = os.path.join(rdir, "%s-%s-%s.json" % (out.tier, out.seed, h))
            with open(rp, "w") as f:
                json.dump({"property": out.prop, "tier": out.tier, "seed": out.seed, "what": v["what"], "payload": v["payload"],
                           "reproduce": "bin/check %s --tier %s (VERIF_SEED=%s)" % (out.prop, out.tier, out.seed)}, f, indent=1, default=str)
            log("VIOLATION property=%s replay=%s" % (out.prop, rp))
            log("  " + str(v["what"])[:400])
        return 1
    log("OK property=%s tier=%s seed=%s states=%s transitions=%s impl_traces=%s wall=%.1fs" % (
        out.prop, out.tier, out.seed, cov.get("states"), cov.get("transitions"), cov.get("traces_validated_against_impl"), time.time() - out.t0))
    return 0


# ---------------------------------------------------------------- Apalache
def run_apalache(scr, specdir, module, args, name, timeout=600, mutate=None):
    """Runs apalache-mc check in a private copy; returns 'NoError' | 'Error' | 'Broken:<msg>'."""
    timeout = max(timeout, 1800)
    wd = scr.path("apa-" + name)
    if not os.path.isdir(wd):
        shutil.copytree(os.path.join(VERIF, "spec", specdir), wd)
    if mutate:
        p = os.path.join(wd, module + ".tla")
        s = open(p).read()
        assert mutate[0] in s, "mutation anchor missing"
        open(p, "w").write(s.replace(mutate[0], mutate[1]))
    cmd = ["apalache-mc", "check", "--out-dir=" + os.path.join(wd, "out"), "--run-dir=" + os.path.join(wd, "run")] + args + [module + ".tla"]
    t0 = time.time()
    try:
        p = subprocess.run(cmd, cwd=wd, stdout=subprocess.PIPE, stderr=subprocess.STDOUT, text=True, timeout=timeout,
                           env=dict(os.environ, JVM_ARGS="-Xmx4g", TMPDIR=wd))
    except subprocess.TimeoutExpired:
        return "Broken:timeout"
    log("  apalache %-18s %5.1fs" % (name, time.time() - t0))
    if "The outcome is: NoError" in p.stdout:
        return "NoError"
    if "The outcome is: Error" in p.stdout or "violation" in p.stdout.lower():
        return "Error"
    return "Broken:" + p.stdout[-600:]
