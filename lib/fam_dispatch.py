"""Dispatch family: C01 C02 C03.

Model: spec/dispatch/Dispatch.tla (collector / ranger / per-node goroutines, unbuffered status channel,
WaitGroup, context). Binding: code -> spec validation of per-goroutine traces recorded through the verif
hooks in graph.go (DispatchTrace.tla), under seeded schedule perturbation and with the context cancelled at
every hook position; per-execution oracles on the harness nodes' own logs attribute a deviation to a property."""
import json, os, random, time, concurrent.futures as cf
from vlib import *

SAFETY = ("INVARIANTS AtMostOnce OnlyValid ForwardOnlyIf CarryExact RootsGetTheEvent Truthful OnePerPipe "
          "CompleteWhenNotCancelled ErrIff WrapsOnlyIfDone NeverInvented WgNonNeg ClosedOnlyAfterAll NoSendOnClosed\n")


def cfg_text(pipes, maxlen, cfgs, thr, outs, body, cancel="TRUE", spec="Spec"):
    return ('CONSTANTS\n  Pipes = {%s}\n  MaxLen = %d\n  Cfgs <- %s\n  ThrPairs <- %s\n  Outs = {%s}\n  CancelAllowed = %s\n'
            'SPECIFICATION %s\n%sCHECK_DEADLOCK TRUE\n') % (pipes, maxlen, cfgs, thr, outs, cancel, spec, body)


NOREPL = '"pass", "drop", "err"'
ALLOUT = '"pass", "replace", "drop", "err"'

# name -> (pipes, maxlen, cfgs, thr, outs, body, cancel, spec, workers, timeout)
MODEL_RUNS = {
    "quick": [
        ("safety", "1, 2, 3", 3, "CfgQuick", "ThrFew", NOREPL, SAFETY, "TRUE", "Spec", 6, 300),
        ("safety-repl", "1, 2, 3", 3, "CfgRepl", "ThrFew", ALLOUT, SAFETY, "TRUE", "Spec", 4, 300),
        ("live", "1, 2", 2, "CfgLiveQ", "ThrOne", NOREPL, "PROPERTIES Terminated ForwardIf AllStartedWhenNotCancelled\n", "TRUE", "Spec", 4, 300),
        ("live-coll", "1, 2", 2, "CfgLiveQ", "ThrOne", NOREPL, "PROPERTIES PromptOnCancel\n", "TRUE", "SpecCollOnly", 2, 300),
    ],
    "thorough": [
        ("safety-33", "1, 2, 3", 3, "Cfg33", "ThrOne", NOREPL, SAFETY, "TRUE", "Spec", 8, 1500),
        ("safety-mixed", "1, 2, 3", 4, "CfgMixed", "ThrFew", NOREPL, SAFETY, "TRUE", "Spec", 6, 1500),
        ("safety-thr", "1, 2, 3", 3, "CfgThr", "ThrAll", NOREPL, SAFETY, "TRUE", "Spec", 6, 1500),
        ("safety-repl", "1, 2, 3", 3, "CfgRepl", "ThrFew", ALLOUT, SAFETY, "TRUE", "Spec", 4, 900),
        ("safety-15", "1, 2, 3", 5, "Cfg15", "ThrFew", ALLOUT, SAFETY, "TRUE", "Spec", 4, 900),
        ("live", "1, 2", 3, "CfgLive", "ThrOne", NOREPL, "PROPERTIES Terminated ForwardIf AllStartedWhenNotCancelled\n", "TRUE", "Spec", 6, 1500),
        ("live-coll", "1, 2", 3, "CfgLive", "ThrOne", NOREPL, "PROPERTIES PromptOnCancel\n", "TRUE", "SpecCollOnly", 4, 1500),
        ("live-nocancel", "1, 2", 3, "CfgLive", "ThrOne", NOREPL, "PROPERTIES ReturnsWhenNoCancel Terminated\n", "FALSE", "Spec", 4, 900),
    ],
}


def model_run(scr, r):
    name, pipes, maxlen, cfgs, thr, outs, body, cancel, spec, workers, timeout = r
    return name, run_tlc(scr, "dispatch", "MCDispatch", cfg_text(pipes, maxlen, cfgs, thr, outs, body, cancel, spec), name,
                         workers=workers, timeout=timeout, heap="6g")


def record(vh, scr, mode, seed, n, tag, reps=1, maxp=4, maxl=5):
    traces = scr.path("traces-%s.ndjson" % tag)
    outp = scr.path("drep-%s.json" % tag)
    prog = scr.path("progress-%s.json" % tag)
    args = ["dispatch-record", "-mode", mode, "-seed", str(seed), "-n", str(n), "-traces", traces, "-out", outp, "-progress", prog,
            "-reps", str(reps), "-maxp", str(maxp), "-maxl", str(maxl)]
    t0 = time.time()
    p = run_vh(vh, args, timeout=3000)
    crashed = None
    if p.returncode != 0:
        last = open(prog).read() if os.path.exists(prog) else ""
        crashed = {"stderr": p.stderr[-3000:], "scenario": last[:3000], "rc": p.returncode}
        return None, traces, crashed
    rep = json.load(open(outp))
    log("  record %-10s %5.1fs scenarios=%d cancelled=%d failures=%s" % (tag, time.time() - t0, rep["scenarios"], rep["cancelled"], rep["failure_count"]))
    return rep, traces, None


def validate(scr, traces_path, tag, full=False, workers=4):
    """Runs DispatchTrace on a trace file; returns (accepted ids, all ids, TLCResult)."""
    wd_name = "trace-" + tag
    wd = scr.path("tlc-" + wd_name)
    if not os.path.isdir(wd):
        shutil.copytree(os.path.join(VERIF, "spec", "dispatch"), wd)
    shutil.copy(traces_path, os.path.join(wd, "traces.ndjson"))
    if full:
        p = os.path.join(wd, "DispatchTrace.tla")
        s = open(p).read().replace("FullSearch == FALSE", "FullSearch == TRUE")
        open(p, "w").write(s)
    ids = [json.loads(l)["id"] for l in open(traces_path) if l.strip()]
    if not ids:
        return set(), ids, None, {}
    res = run_tlc(scr, "dispatch", "DispatchTrace", "SPECIFICATION Spec\nINVARIANTS Inv Report\nCHECK_DEADLOCK FALSE\n", wd_name,
                  workers=workers, timeout=1500, heap="4g")
    acc = set()
    quiet = {}
    for line in open(res.out_path, errors="replace"):
        if line.startswith('<<"ACCEPT"'):
            parts = line.strip().strip("<>").split(",")
            tid = int(parts[1])
            acc.add(tid)
            quiet[tid] = quiet.get(tid, False) or parts[2].strip() == "TRUE"
    return acc, ids, res, quiet


def corrupt(line, rng):
    """Returns a corrupted copy of a trace (one field changed / one event dropped / duplicated) or None."""
    t = json.loads(line)
    logs = t["logs"]
    kinds = ["dropcall", "dupcall", "flipkind", "count", "dropexit", "swapout"]
    rng.shuffle(kinds)
    for kind in kinds:
        if kind == "count" and "coll" in logs and logs["coll"] and logs["coll"][-1]["e"] == "return":
            logs["coll"][-1]["nc"] += 1
            return t, kind
        gs = [g for g in logs if g.startswith("c") and g != "coll"]
        rng.shuffle(gs)
        for g in gs:
            evs = logs[g]
            if kind == "dropcall" and evs and evs[0]["e"] == "call":
                del evs[0]
                return t, kind
            if kind == "dupcall" and evs and evs[0]["e"] == "call":
                evs.insert(1, dict(evs[0]))
                return t, kind
            if kind == "dropexit" and evs and evs[-1]["e"] == "exit":
                del evs[-1]
                return t, kind
            if kind == "swapout":
                for e in evs:
                    if e["e"] == "ret" and e["o"] in ("pass", "drop") and t["cfg"]["len"][e["p"] - 1] != e["k"]:
                        if e["o"] == "pass":
                            e["o"], e["eout"] = "drop", 0
                        else:
                            e["o"], e["eout"] = "pass", 1
                        return t, kind
        if kind == "flipkind" and "coll" in logs:
            for e in logs["coll"]:
                if e["e"] == "recv" and e["kind"] in ("complete", "warn"):
                    e["kind"] = "warn" if e["kind"] == "complete" else "complete"
                    return t, kind
    return None, None


def self_test(scr, traces_path, seed, n=40):
    """Binding self-test: corrupted traces must all be rejected."""
    rng = random.Random(seed)
    lines = [l for l in open(traces_path) if l.strip()]
    rng.shuffle(lines)
    outp = scr.path("corrupt.ndjson")
    kinds = {}
    with open(outp, "w") as f:
        for l in lines:
            t, kind = corrupt(l, rng)
            if t is None:
                continue
            kinds[t["id"]] = kind
            f.write(json.dumps(t) + "\n")
            if len(kinds) >= n:
                break
    if len(kinds) < 5:
        return 0
    acc, ids, res, _ = validate(scr, outp, "selftest", full=True, workers=4)
    if res.error:
        raise Broken("self-test TLC run failed: " + str(res.error))
    if acc:
        raise Broken("binding self-test failed: corrupted traces accepted: %s" % [(i, kinds[i]) for i in sorted(acc)][:5])
    return len(kinds)


def run(prop, tier, seed, out):
    quick = tier == "quick"
    with Scratch("disp") as scr:
        vh = build_harness(scr)
        with cf.ThreadPoolExecutor(max_workers=4) as ex:
            futs = [ex.submit(model_run, scr, r) for r in MODEL_RUNS[tier]]
            # ---- executions of the real code
            recs = []
            if prop in ("C01", "C02"):
                recs.append(record(vh, scr, "random", seed, 400 if quick else 6000, "random") + ("random",))
                recs.append(record(vh, scr, "positions", seed + 7, 2 if quick else 10, "pos") + ("pos",))
            else:
                recs.append(record(vh, scr, "positions", seed, 6 if quick else 60, "pos", reps=1 if quick else 3, maxp=3, maxl=3) + ("pos",))
                recs.append(record(vh, scr, "positions", seed + 3, 2 if quick else 12, "pos25", reps=1, maxp=2, maxl=5) + ("pos25",))
                recs.append(record(vh, scr, "random", seed + 11, 150 if quick else 2000, "random") + ("random",))
            total, accepted_n, rejected, driftn = 0, 0, [], 0
            scen_n, cancelled_n = 0, 0
            selftested = 0
            for rep, traces, crashed, tag in recs:
                if crashed:
                    what = "harness process died while running Send (panic / fatal error in a goroutine)"
                    if prop == "C03" and ("panic" in crashed["stderr"] or "fatal error" in crashed["stderr"]):
                        out.violation(what + ": " + crashed["stderr"][:300], crashed)
                        continue
                    raise Broken(what + ": " + crashed["stderr"][-600:])
                scen_n += rep["scenarios"]
                cancelled_n += rep["cancelled"]
                if rep.get("oracle_undecided"):
                    out.coverage["oracle_undecided"] = out.coverage.get("oracle_undecided", 0) + rep["oracle_undecided"]
                    if rep["oracle_undecided"] * 10 > rep["scenarios"]:
                        raise Broken("the C01/C02 oracle left %d of %d executions undecided" % (rep["oracle_undecided"], rep["scenarios"]))
                for f in rep["failures"]:
                    if f["prop"] == prop:
                        out.violation(f["what"], f)
                    elif f["prop"] == "SETUP":
                        raise Broken("scenario setup failed: " + f["what"])
                    else:
                        out.notes.append("oracle failure attributed to %s (not %s): %s" % (f["prop"], prop, f["what"][:160]))
                if rep["failure_count"].get(prop, 0) and not out.violations:
                    out.violation("%d oracle failures for %s" % (rep["failure_count"][prop], prop), rep["failures"][:3])
                out.coverage["samples"] += (rep.get("samples") or [])[:2]
                out.coverage.setdefault("hook_points_hit", {})
                for k, v in rep["points"].items():
                    out.coverage["hook_points_hit"][k] = out.coverage["hook_points_hit"].get(k, 0) + v
                out.coverage.setdefault("cancel_positions", {}).update(rep["cancel_positions"])
                # ---- TLC validates the recorded traces
                acc, ids, res, quiet = validate(scr, traces, tag)
                if res is None:
                    continue
                if res.error:
                    raise Broken("trace validation failed to run: " + str(res.error))
                if res.violated:
                    # an invariant of Dispatch is false on a state matched by a real execution
                    raise Broken("trace validation reported an invariant violation (%s): inspect %s" % (res.violated, res.out_path))
                out.add_tlc(res)
                total += len(ids)
                accepted_n += len(acc)
                rej = [i for i in ids if i not in acc]
                notquiet = [i for i in acc if not quiet.get(i)]
                if rej:
                    # re-check rejected traces without the search reduction before believing the rejection
                    sub = scr.path("rej-%s.ndjson" % tag)
                    with open(sub, "w") as f:
                        for l in open(traces):
                            if l.strip() and json.loads(l)["id"] in rej[:20]:
                                f.write(l)
                    acc2, ids2, res2, _ = validate(scr, sub, tag + "-full", full=True)
                    still = [i for i in ids2 if i not in acc2]
                    accepted_n += len(ids2) - len(still)
                    rejected += [(tag, i) for i in still] + [(tag, i) for i in rej[20:]]
                if notquiet:
                    out.notes.append("%d traces accepted but the model was not quiescent at the end (%s)" % (len(notquiet), tag))
                if tag == "random" and not selftested:
                    selftested = self_test(scr, traces, seed, 20 if quick else 60)
            if rejected and not out.violations:
                out.notes.append("MODEL-DRIFT: %d recorded executions are not behaviours of Dispatch.tla although every per-execution oracle of %s held: %s"
                                 % (len(rejected), prop, rejected[:5]))
            # ---- registry half of C01 / C02: every state of the bounded Registry model is rebuilt on a real Broker and a Send per
            # type must traverse exactly the registered pipelines (C01) with the Status / threshold semantics of the model (C02)
            if prop in ("C01", "C02"):
                import fam_registry
                for tag, r, g in fam_registry.light_binding(vh, scr, seed, quick):
                    out.add_tlc(g)
                    accepted_n += r["edges"]
                    for m in r["mismatches"] or []:
                        if not m.get("drift") and prop in m["props"]:
                            out.violation("registry replay %s: %s: expected %s, real broker %s" % (tag, m["what"], json.dumps(m["expected"])[:200], json.dumps(m["observed"])[:200]), m)
                    if r["by_prop"].get(prop, 0) and not out.violations:
                        out.violation("registry replay %s: %d mismatches attributed to %s" % (tag, r["by_prop"][prop], prop), (r["mismatches"] or [])[:3])
            # ---- C02: thresholds read back as last set also when the setters meet the first registration of a type
            # ---- C01: "registered at that moment" when the set of pipelines changed while an earlier Send was inside a node
            if prop in ("C01", "C02"):
                hp2, rp2 = scr.path("c02-hist.ndjson"), scr.path("c02-stress.json")
                p = run_vh(vh, ["conc-record", "-seed", str(seed), "-n", "1", "-rounds", "4000" if quick else "40000", "-hist", hp2, "-out", rp2], timeout=1500)
                if p.returncode != 0:
                    if "panic" in p.stderr or "fatal error" in p.stderr:
                        out.violation("process died during concurrent first use of an event type: " + p.stderr[:300], {"stderr": p.stderr[-3000:]})
                    else:
                        raise Broken("conc-record failed: " + p.stderr[-1000:])
                else:
                    for pr in json.load(open(rp2))["problems"]:
                        if pr["prop"] == prop:
                            out.violation(pr["what"], pr)
            # ---- C03 with the Broker's own lock in the picture: Sends whose nodes call back into the Broker (nested Send, a
            # node registering something, the library's gated filter flushing through the Broker) while other goroutines
            # write; Locks.tla (checked by C12) says every such Send returns when no Broker lock is held across Process.
            # The "failed" scenarios make a management call whose precondition fails and then Send on the same Broker.
            if prop == "C03":
                lp = scr.path("locks-send.json")
                p = run_vh(vh, ["locks-run", "-only", "send,mixed,failed,race,getters", "-out", lp, "-reps", "1" if quick else "4"], timeout=900)
                if p.returncode != 0:
                    if "panic" in p.stderr or "fatal error" in p.stderr:
                        out.violation("process died while nodes re-entered the Broker from Process: " + p.stderr[:300], {"stderr": p.stderr[-3000:]})
                    else:
                        raise Broken("locks-run failed: " + p.stderr[-1500:])
                else:
                    lres = json.load(open(lp))["results"]
                    if len(lres) < 8:
                        raise Broken("too few re-entrant Send scenarios ran")
                    for r in lres:
                        if r.get("err", "").startswith("panic"):
                            out.violation("a Broker call panicked: scenario %s: %s" % (r["scenario"]["name"], r["err"][:300]), r)
                        if not r["returned"] and not r.get("hung", "").startswith("(not reproduced"):
                            out.violation("Send never returned although its context was not cancelled and every node returns: scenario %s; goroutines parked on Broker locks: %s"
                                          % (r["scenario"]["name"], r.get("hung", "")[:400]), r)
                    scen_n += len(lres)
                    out.coverage["reentrant_send_scenarios"] = len(lres)
            # ---- the design checks
            for f in futs:
                name, r = f.result()
                if r.violated:
                    raise Broken("Dispatch.tla (%s) violates %s: specification error" % (name, r.violated))
                must_pass(r, "model " + name)
                out.add_tlc(r)
        cov = out.coverage
        cov["traces_validated_against_impl"] = accepted_n
        cov["evaluations"] = scen_n
        cov["distinct_nontrivial"] = cancelled_n
        cov["rule"] = ("each evaluation is one real Broker.Send on a generated configuration (0..4 pipelines, 2..5 nodes, shared nodes, other types, "
                       "registration history) recorded through the graph.go hooks; non-trivial = the context was cancelled at a hook position during the Send")
        cov["traces_recorded"] = total
        cov["traces_rejected"] = len(rejected)
        cov["selftest_corrupted_traces_rejected"] = selftested
        cov["explanation"] = ("states/transitions: exhaustive TLC runs of Dispatch.tla (safety configs with deadlock check, liveness configs) plus the states "
                              "matched during trace validation; traces: executions of the real Send accepted by DispatchTrace.tla")
        out.assumptions += ["harness node logs (entry/exit sequence numbers, event pointers) are truthful",
                            "the goroutine dump shows every goroutine created by Send under an eventlogger.(*graph) frame"]
        if scen_n < 20 and not out.violations:
            raise Broken("too few scenarios ran")   # the recorder stops early once it has found failures: then the verdict stands
        out.notes = sorted(set(out.notes))[:12]
