"""Gated family: C11 C17. Model: spec/gated/Gated.tla. Binding: spec -> code replay on a real gated.Filter."""
import json, os, time, concurrent.futures as cf
from vlib import *

CONST = '''CONSTANTS
  IDs = {"x", "y", "z"}
  E = %(e)d
  BrokerSet = %(broker)s
  MaxDepth = %(depth)d
  MaxClock = %(clock)d
  MaxEvents = %(events)d
  Fails <- %(fails)s
  Dev = {%(dev)s}
'''
INVS = "INVARIANTS ExactlyOnce ArrivalOrder NoMixing WholeGroup NoExpiredAfterProcess EmptyAfterFlushAll MemoryBounded\n"
PROPS = "PROPERTIES DiscardOnlyForCause PassThrough EmptyIdRejected ExpiredOldestFirst\n"


def consts(depth, broker=True, fails="FailsAll", dev="", e=1, clock=4, events=None):
    return CONST % dict(depth=depth, broker="TRUE" if broker else "FALSE", fails=fails, dev=dev, e=e, clock=clock, events=events or depth)


def design(scr, depth, broker, name, workers=6):
    cfg = consts(depth, broker) + "SPECIFICATION Spec\nVIEW ViewH\n" + INVS + PROPS + "CHECK_DEADLOCK FALSE\n"
    return run_tlc(scr, "gated", "MCGated", cfg, name, workers=workers, timeout=2400, heap="8g")


def deviation(scr, dev):
    cfg = consts(6, True, "FailsNone", '"%s"' % dev) + "SPECIFICATION Spec\nVIEW ViewH\n" + INVS + "CHECK_DEADLOCK FALSE\n"
    return run_tlc(scr, "gated", "MCGated", cfg, "dev-" + dev, workers=2, timeout=600, heap="3g")


def export_graph(scr, depth, broker, name, fails="FailsAll"):
    cfg = consts(depth, broker, fails) + "SPECIFICATION SpecE\nVIEW View\nCHECK_DEADLOCK FALSE\n"
    return run_tlc(scr, "gated", "MCGated", cfg, name, workers=1, timeout=2400, heap="6g")


def export_walks(scr, num, depth, seed, broker, name, e=2):
    cfg = consts(depth, broker, "FailsAll", e=e, clock=depth, events=depth) + "SPECIFICATION SpecS\nCHECK_DEADLOCK FALSE\n"
    return run_tlc(scr, "gated", "MCGatedSim", cfg, name, workers=4, timeout=2400, heap="4g",
                   simulate="num=%d" % max(1, num // 4), depth=depth + 2, seed=seed)


def replay(vh, scr, broker, e, tag, edges=None, walks=None, conc=0):
    cfgp = scr.path("gcfg-%s.json" % tag)
    json.dump({"ids": ["x", "y", "z"], "e": e, "broker_set": broker}, open(cfgp, "w"))
    outp = scr.path("grep-%s.json" % tag)
    args = ["gated-replay", "-cfg", cfgp, "-out", outp, "-conc", str(conc)]
    if edges:
        args += ["-edges", edges]
    if walks:
        args += ["-walks", walks]
    t0 = time.time()
    p = run_vh(vh, args, timeout=3000)
    if p.returncode != 0:
        raise Broken("gated replay failed: " + p.stderr[-2000:])
    r = json.load(open(outp))
    log("  replay %-12s %5.1fs edges=%d walks=%d calls=%d mismatches=%d" % (tag, time.time() - t0, r["edges"], r["walks"], r["calls"], r["mismatch_count"]))
    return r


def run(prop, tier, seed, out):
    quick = tier == "quick"
    with Scratch("gated") as scr:
        vh = build_harness(scr)
        with cf.ThreadPoolExecutor(max_workers=5) as ex:
            d = 4 if quick else 5
            f_design = [ex.submit(design, scr, d, True, "design-b"), ex.submit(design, scr, d, False, "design-nb", 3)]
            f_dev = {dv: ex.submit(deviation, scr, dv) for dv in ("expiry_first_only", "flushall_first_only")}
            f_g = [(True, 1, "graph-b", ex.submit(export_graph, scr, d, True, "graph-b")),
                   (False, 1, "graph-nb", ex.submit(export_graph, scr, d, False, "graph-nb"))]
            f_w = [(True, 2, "walks-b", ex.submit(export_walks, scr, 120 if quick else 3000, 40 if quick else 200, seed, True, "walks-b")),
                   (False, 2, "walks-nb", ex.submit(export_walks, scr, 40 if quick else 600, 40 if quick else 200, seed + 1, False, "walks-nb"))]
            reports = []
            for broker, e, tag, f in f_g:
                g = must_pass(f.result(), tag)
                reports.append((tag, replay(vh, scr, broker, e, tag, edges=g.out_path)))
            for broker, e, tag, f in f_w:
                w = f.result()
                if w.error and "simulation" not in w.error.lower():
                    raise Broken(tag + ": " + w.error)
                reports.append((tag, replay(vh, scr, broker, e, tag, walks=w.out_path, conc=20 if quick else 200)))
            for f in f_design:
                r = f.result()
                if r.violated:
                    raise Broken("Gated.tla violates %s with Dev = {}: specification error" % r.violated)
                must_pass(r, "design")
                out.add_tlc(r)
            for dv, f in f_dev.items():
                if not f.result().violated:
                    raise Broken("deviation %s breaks no invariant (vacuous)" % dv)
            out.notes.append("vacuity: expiry_first_only and flushall_first_only each violate an invariant of Gated")
        edges = sum(r["edges"] for _, r in reports)
        walks = sum(r["walks"] for _, r in reports)
        if edges < 100 or walks < 10:
            raise Broken("replay covered too little: %d edges %d walks" % (edges, walks))
        cov = out.coverage
        cov["traces_validated_against_impl"] = edges + walks
        cov["evaluations"] = sum(r["comparisons"] for _, r in reports)
        cov["distinct_nontrivial"] = sum(r["distinct_nontrivial"] for _, r in reports)
        cov["impl_calls"] = sum(r["calls"] for _, r in reports)
        cov["rule"] = ("every transition of the bounded Gated model (Broker set and unset, every failure injection) and every step of simulated walks is executed on "
                       "a real gated.Filter; after each, FlushAll and one flush event per id are run on replayed copies to expose what is still gated; "
                       "non-trivial = distinct histories ending in a call that did not return an error")
        cov["exhaustive"] = True
        cov["concurrent_sender_runs"] = sum(r.get("conc_runs", 0) for _, r in reports)
        for _, r in reports:
            cov["samples"] += (r.get("samples") or [])[:2]
        out.assumptions += ["the harness Gateable payload reports truthfully which events ComposeFrom was given", "NowFunc is the filter's only clock"]
        for nm, r in reports:
            for m in r["mismatches"] or []:
                if prop in m["props"]:
                    out.violation("%s: %s: expected %s, real filter %s" % (nm, m["what"], json.dumps(m["expected"])[:200], json.dumps(m["observed"])[:200]), m)
                else:
                    out.notes.append("mismatch attributed to %s (not %s): %s" % (",".join(m["props"]), prop, m["what"]))
            if r["by_prop"].get(prop, 0) and not out.violations:
                out.violation("%s: %d mismatches attributed to %s" % (nm, r["by_prop"][prop], prop), (r["mismatches"] or [])[:3])
        out.notes = sorted(set(out.notes))[:10]
