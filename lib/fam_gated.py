"""Gated family: C11 C17. Model: spec/gated/Gated.tla. Binding: spec -> code replay on a real gated.Filter."""
import json, os, re, shutil, time, concurrent.futures as cf
from vlib import *

CONST = '''CONSTANTS
  IDs = {"x", "y", "z"}
  E = %(e)d
  BrokerSet = %(broker)s
  MaxDepth = %(depth)d
  MaxClock = %(clock)d
  MaxEvents = %(events)d
  Fails <- %(fails)s
  Dev = {%(dev)s}
'''
INVS = "INVARIANTS ExactlyOnce ArrivalOrder NoMixing WholeGroup NoExpiredAfterProcess EmptyAfterFlushAll MemoryBounded\n"
PROPS = "PROPERTIES DiscardOnlyForCause PassThrough EmptyIdRejected ExpiredOldestFirst\n"


class FilterDied(Exception):
    def __init__(self, what, stderr):
        Exception.__init__(self, what)
        self.what, self.stderr = what, stderr


def consts(depth, broker=True, fails="FailsAll", dev="", e=1, clock=4, events=None):
    return CONST % dict(depth=depth, broker="TRUE" if broker else "FALSE", fails=fails, dev=dev, e=e, clock=clock, events=events or depth)


def design(scr, depth, broker, name, workers=6):
    cfg = consts(depth, broker) + "SPECIFICATION Spec\nVIEW ViewH\n" + INVS + PROPS + "CHECK_DEADLOCK FALSE\n"
    return run_tlc(scr, "gated", "MCGated", cfg, name, workers=workers, timeout=2400, heap="8g")


def deviation(scr, dev):
    cfg = consts(6, True, "FailsNone", '"%s"' % dev) + "SPECIFICATION Spec\nVIEW ViewH\n" + INVS + "CHECK_DEADLOCK FALSE\n"
    return run_tlc(scr, "gated", "MCGated", cfg, "dev-" + dev, workers=2, timeout=600, heap="3g")


def export_graph(scr, depth, broker, name, fails="FailsAll"):
    cfg = consts(depth, broker, fails) + "SPECIFICATION SpecE\nVIEW View\nCHECK_DEADLOCK FALSE\n"
    return run_tlc(scr, "gated", "MCGated", cfg, name, workers=1, timeout=2400, heap="6g")


def export_walks(scr, num, depth, seed, broker, name, e=2):
    cfg = consts(depth, broker, "FailsAll", e=e, clock=depth, events=depth) + "SPECIFICATION SpecS\nCHECK_DEADLOCK FALSE\n"
    return run_tlc(scr, "gated", "MCGatedSim", cfg, name, workers=4, timeout=2400, heap="4g",
                   simulate="num=%d" % max(1, num // 4), depth=depth + 2, seed=seed)


def replay(vh, scr, broker, e, tag, edges=None, walks=None, conc=0):
    cfgp = scr.path("gcfg-%s.json" % tag)
    json.dump({"ids": ["x", "y", "z"], "e": e, "broker_set": broker}, open(cfgp, "w"))
    outp = scr.path("grep-%s.json" % tag)
    args = ["gated-replay", "-cfg", cfgp, "-out", outp, "-conc", str(conc)]
    if edges:
        args += ["-edges", edges]
    if walks:
        args += ["-walks", walks]
    t0 = time.time()
    p = run_vh(vh, args, timeout=3000)
    if p.returncode != 0:
        m = re.search(r"^(fatal error: .*|panic: .*)$", p.stderr, re.M)
        if m and "filters/gated.(*Filter)" in p.stderr:
            # the process died inside the filter (unlock of an unlocked mutex, concurrent map writes, deadlock, nil dereference)
            raise FilterDied(m.group(1), p.stderr)
        raise Broken("gated replay failed: " + p.stderr[-2000:])
    r = json.load(open(outp))
    log("  replay %-12s %5.1fs edges=%d walks=%d calls=%d mismatches=%d" % (tag, time.time() - t0, r["edges"], r["walks"], r["calls"], r["mismatch_count"]))
    return r


TRACE_CFG = """SPECIFICATION TSpec
CONSTANTS
  IDs = {"x", "y", "z"}
  E = 2
  BrokerSet = %s
  MaxDepth = 0
  MaxClock = 0
  MaxEvents = 0
  Fails = {}
  Dev = {}
INVARIANTS Report TExactlyOnce TNoMixing TMemoryBounded TNoExpiredAfterProcess TEmptyAfterFlushAll
CHECK_DEADLOCK FALSE
"""


def record_hist(vh, scr, seed, n, broker, tag):
    hist = scr.path("ghist-%s.ndjson" % tag)
    rp = scr.path("ghist-%s.json" % tag)
    p = run_vh(vh, ["gated-hist", "-seed", str(seed), "-n", str(n), "-e", "2", "-broker=%s" % ("true" if broker else "false"), "-hist", hist, "-out", rp], timeout=1200)
    if p.returncode != 0:
        m = re.search(r"^(fatal error: .*|panic: .*)$", p.stderr, re.M)
        if m and "filters/gated.(*Filter)" in p.stderr:
            raise FilterDied(m.group(1), p.stderr)
        raise Broken("gated-hist failed: " + p.stderr[-1500:])
    return hist, json.load(open(rp))


def validate_hist(scr, hist, broker, tag):
    """Code -> spec: TLC looks for linearisation points that explain each recorded history (GatedTrace.tla)."""
    wd = scr.path("tlc-gtrace-" + tag)
    shutil.copytree(os.path.join(VERIF, "spec", "gated"), wd)
    shutil.copy(hist, os.path.join(wd, "gconc.ndjson"))
    res = run_tlc(scr, "gated", "GatedTrace", TRACE_CFG % ("TRUE" if broker else "FALSE"), "gtrace-" + tag, workers=8, timeout=1800, heap="8g")
    acc = set()
    for line in open(res.out_path, errors="replace"):
        if line.startswith('<<"ACCEPT"'):
            acc.add(int(line.strip().strip("<>").split(",")[1]))
    ids = [json.loads(l)["id"] for l in open(hist) if l.strip()]
    return acc, ids, res


def corrupt_hist(hist, outp, n=10):
    """Binding self-test: duplicate a member of a composite of two or more events / drop one of its members
    (reversing is no corruption when the two calls overlapped)."""
    k = 0
    with open(outp, "w") as f:
        for line in open(hist):
            h = json.loads(line)
            done = False
            for i, r in enumerate(h["h"]):
                if r["k"] != "resp":
                    continue
                if len(r.get("ret") or []) == 2 and len(r["ret"][1]) >= 2:
                    r["ret"][1] = (r["ret"][1][:-1] + [r["ret"][1][0]]) if k % 2 == 0 else r["ret"][1][:-1]
                    done = True
                    break
                big = [c for c in (r.get("sent") or []) if len(c) >= 2]
                if big:
                    j = r["sent"].index(big[0])
                    r["sent"][j] = (big[0][:-1] + [big[0][0]]) if k % 2 == 0 else big[0][1:]
                    done = True
                    break
            if done:
                f.write(json.dumps(h) + "\n")
                k += 1
                if k >= n:
                    break
    return k


def conc_traces(vh, scr, prop, seed, quick, out):
    total = 0
    for broker, n, tag in ((True, 150 if quick else 1500, "b"), (False, 120 if quick else 1000, "nb")):
        t0 = time.time()
        hist, rep = record_hist(vh, scr, seed, n, broker, tag)
        for pn in rep["panics"]:
            out.violation("concurrent callers: " + pn, {"panic": pn})
        acc, ids, res = validate_hist(scr, hist, broker, tag)
        if res.error:
            raise Broken("GatedTrace validation failed: " + str(res.error))
        if res.violated and res.violated != "Report":
            # an invariant of Gated is false in a state of a matched behaviour: the model itself is inconsistent
            raise Broken("GatedTrace: invariant %s violated on a matched prefix (specification error)" % res.violated)
        out.add_tlc(res)
        log("  gated-hist %-3s %5.1fs histories=%d ops=%d accepted=%d" % (tag, time.time() - t0, len(ids), rep["ops"], len(acc)))
        hs = {json.loads(l)["id"]: json.loads(l) for l in open(hist) if l.strip()}
        for i in ids:
            if i not in acc:
                out.violation("concurrent history %d (%s Broker, %d goroutines) has no linearisation: some call returned or sent what no atomic order of the calls produces "
                              "(event lost, duplicated, out of arrival order, mixed ids, or left gated after FlushAll / expiry)" % (i, "with" if broker else "without", hs[i]["g"]),
                              {"history": hs[i], "broker_set": broker})
        total += len(ids)
        if broker:
            cp = scr.path("ghist-corrupt.ndjson")
            k = corrupt_hist(hist, cp)
            if k < 3:
                raise Broken("gated self-test: too few corruptible histories")
            acc2, ids2, res2 = validate_hist(scr, cp, True, "selftest")
            if acc2:
                raise Broken("gated self-test: corrupted histories accepted: %s" % sorted(acc2)[:5])
            out.notes.append("binding self-test: %d histories with a member of one composite duplicated or dropped were all rejected by GatedTrace" % k)
    out.coverage["concurrent_histories_validated"] = total
    return total


def run(prop, tier, seed, out):
    try:
        run1(prop, tier, seed, out)
    except FilterDied as d:
        out.violation("the process died inside gated.Filter while the model's histories / concurrent senders were run on it: " + d.what, {"stderr": d.stderr[-6000:]})


def run1(prop, tier, seed, out):
    quick = tier == "quick"
    with Scratch("gated") as scr:
        vh = build_harness(scr)
        with cf.ThreadPoolExecutor(max_workers=5) as ex:
            d = 4 if quick else 5
            f_design = [ex.submit(design, scr, d, True, "design-b"), ex.submit(design, scr, d, False, "design-nb", 3)]
            f_dev = {dv: ex.submit(deviation, scr, dv) for dv in ("expiry_first_only", "flushall_first_only")}
            f_g = [(True, 1, "graph-b", ex.submit(export_graph, scr, d, True, "graph-b")),
                   (False, 1, "graph-nb", ex.submit(export_graph, scr, d, False, "graph-nb"))]
            f_w = [(True, 2, "walks-b", ex.submit(export_walks, scr, 120 if quick else 3000, 40 if quick else 200, seed, True, "walks-b")),
                   (False, 2, "walks-nb", ex.submit(export_walks, scr, 40 if quick else 600, 40 if quick else 200, seed + 1, False, "walks-nb"))]
            reports = []
            for broker, e, tag, f in f_g:
                g = must_pass(f.result(), tag)
                reports.append((tag, replay(vh, scr, broker, e, tag, edges=g.out_path)))
            for broker, e, tag, f in f_w:
                w = f.result()
                if w.error and "simulation" not in w.error.lower():
                    raise Broken(tag + ": " + w.error)
                reports.append((tag, replay(vh, scr, broker, e, tag, walks=w.out_path, conc=20 if quick else 200)))
            for f in f_design:
                r = f.result()
                if r.violated:
                    raise Broken("Gated.tla violates %s with Dev = {}: specification error" % r.violated)
                must_pass(r, "design")
                out.add_tlc(r)
            for dv, f in f_dev.items():
                if not f.result().violated:
                    raise Broken("deviation %s breaks no invariant (vacuous)" % dv)
            out.notes.append("vacuity: expiry_first_only and flushall_first_only each violate an invariant of Gated")
        nconc = conc_traces(vh, scr, prop, seed, quick, out)
        edges = sum(r["edges"] for _, r in reports)
        walks = sum(r["walks"] for _, r in reports)
        if edges < 100 or walks < 10:
            raise Broken("replay covered too little: %d edges %d walks" % (edges, walks))
        cov = out.coverage
        cov["traces_validated_against_impl"] = edges + walks + nconc
        cov["evaluations"] = sum(r["comparisons"] for _, r in reports)
        cov["distinct_nontrivial"] = sum(r["distinct_nontrivial"] for _, r in reports)
        cov["impl_calls"] = sum(r["calls"] for _, r in reports)
        cov["rule"] = ("every transition of the bounded Gated model (Broker set and unset, every failure injection) and every step of simulated walks is executed on "
                       "a real gated.Filter; after each, FlushAll and one flush event per id are run on replayed copies to expose what is still gated; "
                       "non-trivial = distinct histories ending in a call that did not return an error")
        cov["exhaustive"] = True
        cov["concurrent_sender_runs"] = sum(r.get("conc_runs", 0) for _, r in reports)
        for _, r in reports:
            cov["samples"] += (r.get("samples") or [])[:2]
        out.assumptions += ["the harness Gateable payload reports truthfully which events ComposeFrom was given", "NowFunc is the filter's only clock"]
        for nm, r in reports:
            for m in r["mismatches"] or []:
                if prop in m["props"]:
                    out.violation("%s: %s: expected %s, real filter %s" % (nm, m["what"], json.dumps(m["expected"])[:200], json.dumps(m["observed"])[:200]), m)
                else:
                    out.notes.append("mismatch attributed to %s (not %s): %s" % (",".join(m["props"]), prop, m["what"]))
            if r["by_prop"].get(prop, 0) and not out.violations:
                out.violation("%s: %d mismatches attributed to %s" % (nm, r["by_prop"][prop], prop), (r["mismatches"] or [])[:3])
        out.notes = sorted(set(out.notes))[:10]
