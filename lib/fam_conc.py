"""Concurrency family: C04 (Broker race-free, registration linearizable for Send) and C19 (stock nodes safe to share).
Models: spec/conc/BrokerConc.tla (linearisation of recorded inv/resp histories), spec/conc/Access.tla (lockset discipline).
Binding: histories / compositions run on the real code built with -race; race reports are matched against Access.tla's predictions."""
import glob, json, os, re, shutil, subprocess, time
from vlib import *

KNOWN_DEVS = {"F8": "event_copy_reads_table_unlocked"}


def access(scr, devs, name):
    cfg = "CONSTANT Dev = {%s}\nSPECIFICATION Spec\nINVARIANT NoRace\nCHECK_DEADLOCK FALSE\n" % ", ".join('"%s"' % d for d in devs)
    return run_tlc(scr, "conc", "Access", cfg, name, workers=1, timeout=200, heap="1g")


def race_reports(prefix):
    reps = []
    for f in glob.glob(prefix + "*"):
        txt = open(f, errors="replace").read()
        for block in txt.split("=================="):
            if "WARNING: DATA RACE" in block:
                reps.append(block)
    return reps


def classify(block):
    """-> 'F8' | 'harness' | 'other'"""
    # F8: the encrypt filter's deep copy of the shared *Event reads the format table (the map or the byte slices stored in it)
    # while a formatter of another pipeline produces / stores them
    if "copystructure" in block and "encrypt.(*Filter).Process" in block and any(
            x in block for x in ("FormattedAs", "(*JSONFormatter).Process", "(*JSONFormatterFilter).Process", "cloudevents.(*FormatterFilter)")):
        return "F8"
    if "hashicorp/eventlogger" not in block.replace("verif/harness", ""):
        return "harness"
    return "other"


def run_race(vh, args, scr, tag, timeout=1500):
    prefix = scr.path("race-" + tag)
    env = {"GORACE": "halt_on_error=0 exitcode=0 log_path=%s" % prefix}
    p = run_vh(vh, args, timeout=timeout, env=env)
    return p, race_reports(prefix)


def validate(scr, hist, tag):
    wd = scr.path("tlc-bconc-" + tag)
    shutil.copytree(os.path.join(VERIF, "spec", "conc"), wd)
    shutil.copy(hist, os.path.join(wd, "conc.ndjson"))
    res = run_tlc(scr, "conc", "BrokerConc", "SPECIFICATION Spec\nINVARIANTS Report\nCHECK_DEADLOCK FALSE\n", "bconc-" + tag, workers=8, timeout=2400, heap="10g")
    acc = set()
    for line in open(res.out_path, errors="replace"):
        if line.startswith('<<"ACCEPT"'):
            acc.add(int(line.strip().strip("<>").split(",")[1]))
    ids = [json.loads(l)["id"] for l in open(hist) if l.strip()]
    return acc, ids, res


def corrupt(hist, outp, n=12):
    """Binding self-test: invent / drop a delivery of a Send."""
    k = 0
    with open(outp, "w") as f:
        for line in open(hist):
            h = json.loads(line)
            sends = [r for r in h["h"] if r["k"] == "resp" and any(q["k"] == "inv" and q["op"] == r["op"] and q["kind"] == "send" for q in h["h"])]
            if not sends:
                continue
            r = sends[len(sends) // 2]
            r["res"] = sorted((r.get("res") or []) + [9999])   # a delivery nobody registered
            f.write(json.dumps(h) + "\n")
            k += 1
            if k >= n:
                break
    return k


def run(prop, tier, seed, out):
    quick = tier == "quick"
    known = {f["id"]: f for f in known_for("C19")}
    with Scratch("conc") as scr:
        vh = build_harness(scr, race=True)
        # lockset model: intended discipline race-free; the as-is table (known deviations) predicts exactly the known races
        a0 = access(scr, [], "access-intended")
        if a0.violated:
            raise Broken("Access.tla reports a race for the intended discipline: specification error")
        must_pass(a0, "Access")
        out.add_tlc(a0)
        a1 = access(scr, [KNOWN_DEVS[k] for k in known if k in KNOWN_DEVS], "access-asis")
        if known and not a1.violated:
            raise Broken("Access.tla with the known deviations reports no race (mis-filed finding)")
        cov = out.coverage
        if prop == "C04":
            hist = scr.path("conc.ndjson")
            rp = scr.path("crep.json")
            t0 = time.time()
            p, races = run_race(vh, ["conc-record", "-seed", str(seed), "-n", "40" if quick else "400", "-hist", hist, "-out", rp], scr, "c04")
            if p.returncode != 0:
                if "panic" in p.stderr or "fatal error" in p.stderr:
                    out.violation("the process died during concurrent Broker use: " + p.stderr[:400], {"stderr": p.stderr[-4000:]})
                    return
                raise Broken("conc-record failed: " + p.stderr[-1500:])
            rep = json.load(open(rp))
            log("  conc-record %.1fs histories=%d ops=%d races=%d" % (time.time() - t0, rep["histories"], rep["ops"], len(races)))
            for pr in rep["problems"]:
                out.violation(pr["what"], pr)   # C04 covers the atomic-swap clause of C07 as well ("zero or one time ... exactly once")
            for blk in races:
                c = classify(blk)
                if c == "harness":
                    raise Broken("data race inside the harness itself:\n" + blk[:1500])
                out.violation("data race under concurrent Broker use: " + " | ".join(re.findall(r"^\s+(\S*eventlogger\S*\(\))", blk, re.M)[:4]), {"report": blk[:4000]})
            # TLC: every history must be linearisable (quick: the histories with up to 4 goroutines; the larger ones are
            # judged by the race detector and the recorder's exactly-once checks only)
            small = scr.path("conc-small.ndjson")
            with open(small, "w") as f:
                for l in open(hist):
                    if l.strip() and json.loads(l)["g"] <= (4 if quick else 6):
                        f.write(l)
            hist = small
            acc, ids, res = validate(scr, hist, "real")
            if res.error:
                raise Broken("BrokerConc validation failed: " + str(res.error))
            out.add_tlc(res)
            for i in [i for i in ids if i not in acc][:5]:
                h = [json.loads(l) for l in open(hist) if json.loads(l)["id"] == i][0]
                out.violation("history %d is not linearisable: some Send saw a pipeline it must not see, missed one it must see, or the quiescent state is no sequential outcome" % i, h)
            cp = scr.path("corrupt.ndjson")
            k = corrupt(hist, cp)
            acc2, ids2, res2 = validate(scr, cp, "selftest")
            if res2.error:
                raise Broken("self-test failed to run: " + str(res2.error))
            if acc2:
                raise Broken("binding self-test failed: corrupted histories accepted %s" % sorted(acc2)[:4])
            cov["traces_validated_against_impl"] = len(acc)
            cov["evaluations"] = rep["ops"]
            cov["distinct_nontrivial"] = rep["histories"]
            cov["rule"] = ("one evaluation = one public Broker call inside a random concurrent history (2..8 goroutines over 3 pipeline ids, fresh marker node per registration, "
                           "register / remove / remove-with-nodes / send / IsAny / thresholds / Reopen / node churn) run under the Go race detector; non-trivial = histories")
            cov["selftest_corrupted_histories_rejected"] = k
            cov["race_reports"] = len(races)
            cov["samples"] = (rep.get("samples") or [])[:1]
            out.assumptions += ["the Go race detector only sees executed interleavings", "sync.Map's documented per-key atomicity"]
            if len(ids) < 8:
                raise Broken("too few histories")
            return
        # ---- C19
        rp = scr.path("comp.json")
        t0 = time.time()
        p, races = run_race(vh, ["conc-compose", "-seed", str(seed), "-n", "10" if quick else "60", "-per", "30" if quick else "80", "-out", rp], scr, "c19")
        if p.returncode != 0:
            if "panic" in p.stderr or "fatal error" in p.stderr:
                out.violation("the process died while stock nodes were shared across pipelines: " + p.stderr[:500], {"stderr": p.stderr[-4000:]})
                return
            raise Broken("conc-compose failed: " + p.stderr[-1500:])
        results = json.load(open(rp))["results"]
        log("  conc-compose %.1fs compositions=%d races=%d" % (time.time() - t0, len(results), len(races)))
        for r in results:
            for pr in r["problems"] or []:
                out.violation("%s: %s" % (r["name"], pr["what"]), r)
        # a ChannelSink with several calls in flight (shared by pipelines / concurrent Sends) and a slow consumer:
        # every call keeps its own timeout (ChannelConc.tla, checked by C13)
        cp = scr.path("chanconc.json")
        p3, races3 = run_race(vh, ["chan-conc", "-out", cp], scr, "chanconc")
        if p3.returncode != 0:
            raise Broken("chan-conc failed: " + p3.stderr[-1000:])
        for m in json.load(open(cp))["mismatches"] or []:
            out.violation("channel sink shared by concurrent callers: %s: expected %s, observed %s" % (m["what"], json.dumps(m["expected"])[:120], json.dumps(m["observed"])[:120]), m)
        races = races + races3
        # first use of the local time zone in a process while events are being copied by encrypt.Filter (F16, fixed)
        for i in range(2 if quick else 6):
            tp = scr.path("timeloc-%d.json" % i)
            p4, races4 = run_race(vh, ["timeloc", "-out", tp], scr, "timeloc-%d" % i)
            if p4.returncode != 0:
                raise Broken("timeloc failed: " + p4.stderr[-1000:])
            for pr in json.load(open(tp))["problems"]:
                out.violation(pr["what"], pr)
            races = races + races4
        f8_seen = False
        for blk in races:
            c = classify(blk)
            if c == "harness":
                raise Broken("data race inside the harness itself:\n" + blk[:1500])
            if c == "F8" and "F8" in known:
                f8_seen = True
                continue
            out.violation("data race between stock nodes: " + " | ".join(re.findall(r"^\s+(\S*eventlogger\S*\(\))", blk, re.M)[:4]), {"report": blk[:4000]})
        # the known finding, in processes of its own
        f8_runs, f8_crashes, f8_races = 0, 0, 0
        for i in range(2 if quick else 8):
            p2, races2 = run_race(vh, ["conc-compose", "-seed", str(seed + 50 + i), "-n", "2", "-per", "25", "-f8", "-out", scr.path("f8-%d.json" % i)], scr, "f8-%d" % i)
            f8_runs += 1
            others = [b for b in races2 if classify(b) not in ("F8",)]
            f8_races += len(races2) - len(others)
            for blk in others:
                if classify(blk) == "harness":
                    raise Broken("data race inside the harness itself:\n" + blk[:1500])
                out.violation("data race between stock nodes: " + " | ".join(re.findall(r"^\s+(\S*eventlogger\S*\(\))", blk, re.M)[:4]), {"report": blk[:4000]})
            if p2.returncode != 0:
                if "concurrent map" in p2.stderr and "copystructure" in p2.stderr and "encrypt.(*Filter).Process" in p2.stderr:
                    f8_crashes += 1
                elif "panic" in p2.stderr or "fatal error" in p2.stderr:
                    out.violation("the process died while stock nodes were shared across pipelines: " + p2.stderr[:500], {"stderr": p2.stderr[-4000:]})
                else:
                    raise Broken("conc-compose -f8 failed: " + p2.stderr[-1500:])
        if f8_races or f8_crashes or f8_seen:
            if "F8" in known:
                out.known_finding("F8: %s" % known["F8"]["what"])
                out.coverage["f8_observed"] = {"race_reports": f8_races, "fatal_concurrent_map_crashes": f8_crashes, "runs": f8_runs}
            else:
                out.violation("encrypt.Filter copies an event that another pipeline formats concurrently: %d race reports, %d fatal crashes" % (f8_races, f8_crashes), {})
        elif "F8" in known:
            out.notes.append("known finding F8 did not reproduce in this run")
        cov["traces_validated_against_impl"] = len(results) + f8_runs
        cov["evaluations"] = sum(r["sends"] for r in results)
        cov["distinct_nontrivial"] = len({r["name"] for r in results})
        cov["rule"] = ("one evaluation = one Send through a composition of 1..7 pipelines built from the stock catalogue (Filter, JSON formatter / formatter-filter, cloudevents, encrypt, gated, "
                       "file / writer / channel sinks; nodes shared across pipelines; every ordered pair of kinds adjacent somewhere) with 2..8 senders and concurrent Reopen / Rotate / FlushAll, "
                       "under the Go race detector; outputs parsed as whole records; non-trivial = distinct compositions")
        cov["race_reports"] = len(races)
        cov["samples"] = [r["name"] for r in results[:4]]
        out.assumptions += ["the Go race detector only sees executed interleavings", "race reports are attributed by their stack frames to the access pairs of Access.tla"]
        if len(results) < 5:
            raise Broken("too few compositions")
        return
    
