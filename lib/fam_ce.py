"""CloudEvents family: C18. Model: spec/cloudevents/CloudEvents.tla (decision table). Binding: one run per vector on the real FormatterFilter."""
import json, os, time
from vlib import *


def run(prop, tier, seed, out):
    quick = tier == "quick"
    with Scratch("ce") as scr:
        vh = build_harness(scr)
        cfg = ('CONSTANT Dev = {%s}\nSPECIFICATION Spec\nINVARIANTS InvalidConfigIsError EmptyIdIsError SignedIffListedAndSigner '
               'NeverForwardedUnsignedWhenSigningFailed UnlistedNeverSigned Export\nCHECK_DEADLOCK FALSE\n')
        vec = run_tlc(scr, "cloudevents", "CloudEvents", cfg % "", "vectors", workers=1, timeout=300, heap="2g")
        if vec.violated:
            raise Broken("CloudEvents.tla violates " + vec.violated)
        must_pass(vec, "CloudEvents vectors")
        out.add_tlc(vec)
        dev = run_tlc(scr, "cloudevents", "CloudEvents", cfg % '"sign_error_ignored"', "dev", workers=1, timeout=300, heap="2g")
        if not dev.violated:
            raise Broken("deviation sign_error_ignored does not violate NeverForwardedUnsignedWhenSigningFailed (vacuous)")
        # the configuration that changes while the node is in use: signer rotation (also refused) and the list of types
        scfg = "CONSTANTS\n  MaxDepth = %d\n  Dev = {%s}\nSPECIFICATION Spec\nINVARIANTS RefusedCallChangesNothing Export\nPROPERTY SignerStays\nCHECK_DEADLOCK FALSE\n"
        seq = run_tlc(scr, "cloudevents", "CeSeq", scfg % (4 if quick else 5, ""), "seq", workers=1, timeout=600, heap="3g")
        if seq.violated:
            raise Broken("CeSeq.tla violates " + seq.violated)
        must_pass(seq, "CeSeq")
        out.add_tlc(seq)
        sdev = run_tlc(scr, "cloudevents", "CeSeq", scfg % (3, '"rotate_nil_clears"'), "seq-dev", workers=1, timeout=300, heap="2g")
        if not sdev.violated:
            raise Broken("deviation rotate_nil_clears does not violate RefusedCallChangesNothing (vacuous)")
        outp = scr.path("ce.json")
        t0 = time.time()
        p = run_vh(vh, ["ce-replay", "-vectors", vec.out_path, "-seed", str(seed), "-n", "2" if quick else "100", "-seq", seq.out_path, "-out", outp], timeout=3000)
        if p.returncode != 0:
            raise Broken("ce-replay failed: " + p.stderr[-1500:])
        r = json.load(open(outp))
        log("  ce-replay %.1fs vectors=%d runs=%d mismatches=%d" % (time.time() - t0, r["vectors"], r["runs"], r["mismatch_count"]))
        cov = out.coverage
        cov["traces_validated_against_impl"] = r["runs"]
        cov["evaluations"] = r["runs"]
        cov["distinct_nontrivial"] = r["distinct_nontrivial"]
        cov["rule"] = ("one evaluation = one vector (payload kind x format x schema x source x signer x listed x predicate) run on the real cloudevents.FormatterFilter with random "
                       "content; non-trivial = vectors whose event is forwarded, whose stored document is parsed and checked attribute by attribute")
        cov["samples"] = r.get("samples") or []
        cov["exhaustive"] = True
        out.assumptions += ["optional attributes are read through the library's own cloudevents.Event struct (it spells the content type member 'datacontentype'); encoding/json is trusted"]
        if r["vectors"] < 1000:
            raise Broken("too few vectors")
        for m in r["mismatches"] or []:
            out.violation("%s: expected %s, observed %s (vector %s)" % (m["what"], json.dumps(m["expected"])[:150], json.dumps(m["observed"])[:150], json.dumps(m["vector"])[:220]), m)
