"""Encrypt family: C09 C10 (C16 in fam_keys). Models: spec/encrypt/Policy.tla (tag x overrides x wrapper -> operation / failure),
Walk.tla (payload shape grammar -> what the reflection walk reaches). Binding: one implementation run per model state."""
import json, os, time, concurrent.futures as cf
from vlib import *


def replay(vh, scr, kind, vectors, seed, tag):
    outp = scr.path("enc-%s.json" % tag)
    t0 = time.time()
    p = run_vh(vh, ["enc-replay", "-kind", kind, "-vectors", vectors, "-seed", str(seed), "-out", outp], timeout=2400)
    if p.returncode != 0:
        raise Broken("enc-replay %s failed: %s" % (kind, p.stderr[-1500:]))
    r = json.load(open(outp))
    log("  enc-replay %-9s %5.1fs vectors=%d mismatches=%d" % (tag, time.time() - t0, r["vectors"], r["mismatch_count"]))
    return r


def run(prop, tier, seed, out):
    quick = tier == "quick"
    with Scratch("enc") as scr:
        vh = build_harness(scr)
        pol = run_tlc(scr, "encrypt", "Policy", "SPECIFICATION Spec\nINVARIANTS SecureDefault UnknownIsRedacted OverrideBeatsTagBeatsDefault FailClosed Export\nCHECK_DEADLOCK FALSE\n",
                      "policy", workers=1, timeout=600, heap="3g")
        if pol.violated:
            raise Broken("Policy.tla violates " + pol.violated)
        must_pass(pol, "Policy")
        walk = run_tlc(scr, "encrypt", "Walk", "CONSTANT MaxD = %d\nSPECIFICATION Spec\nINVARIANTS NoLeak DeviationsAreClassified Export\nCHECK_DEADLOCK FALSE\n" % (4 if quick else 6),
                       "walk", workers=1, timeout=1800, heap="4g")
        if walk.violated:
            raise Broken("Walk.tla violates " + walk.violated)
        must_pass(walk, "Walk")
        tags = run_tlc(scr, "encrypt", "Tags", "CONSTANT MaxTags = %d\nSPECIFICATION Spec\nINVARIANTS Export OnlyPublicTagsArePlain UntaggedAreRedacted PublicPreserved TagDictates\nCHECK_DEADLOCK FALSE\n" % (2 if quick else 3),
                       "tags", workers=1, timeout=1800, heap="6g")
        if tags.violated:
            raise Broken("Tags.tla violates " + tags.violated)
        must_pass(tags, "Tags")
        out.add_tlc(pol)
        out.add_tlc(walk)
        out.add_tlc(tags)
        reps = []
        seeds = [seed] if quick else [seed + i for i in range(5)]
        for s in seeds:
            reps.append(("policy", replay(vh, scr, "policy", pol.out_path, s, "policy-%d" % s)))
            reps.append(("walk", replay(vh, scr, "walk", walk.out_path, s, "walk-%d" % s)))
            reps.append(("taggable", replay(vh, scr, "taggable", pol.out_path, s, "taggable-%d" % s)))
            reps.append(("tags", replay(vh, scr, "tags", tags.out_path, s, "tags-%d" % s)))
        known = {f["id"]: f for f in known_for(prop)}
        cov = out.coverage
        cov["traces_validated_against_impl"] = sum(r["runs"] for _, r in reps)
        cov["evaluations"] = sum(r["runs"] for _, r in reps)
        cov["distinct_nontrivial"] = max(r["distinct_nontrivial"] for k, r in reps if k == "policy") + max(r["distinct_nontrivial"] for k, r in reps if k == "walk")
        cov["rule"] = ("one evaluation = one state of Policy.tla (class spelling x operation spelling x override map x wrapper present/absent/failing) or of Walk.tla (payload shape up to "
                       "the depth bound) or of Tags.tla (one or two pointer tags on a Taggable map four levels deep, dangling pointers included), built with reflect and run through the real encrypt.Filter; non-trivial = vectors whose event is forwarded and checked leaf by leaf")
        cov["exhaustive"] = True
        cov["walk_outcomes_by_class"] = [r["class_counts"] for k, r in reps if k == "walk"][0]
        # rotation payloads are events too: the key-history recorder (C16's binding) also says whether a rotation payload was
        # consumed (C09) and left untouched (C10)
        khp, kout = scr.path("k-histories.ndjson"), scr.path("k-rep.json")
        t0 = time.time()
        p = run_vh(vh, ["enc-replay", "-kind", "keys", "-vectors", khp, "-seed", str(seed), "-n", "200" if quick else "1500", "-out", kout], timeout=2400)
        if p.returncode != 0:
            raise Broken("keys recorder failed: " + p.stderr[-1500:])
        kr = json.load(open(kout))
        log("  keys recorder %.1fs histories=%d events=%d mismatches=%d" % (time.time() - t0, kr["vectors"], kr["runs"], kr["mismatch_count"]))
        kr.setdefault("class_counts", {})
        reps.append(("keys", kr))
        for _, r in reps:
            cov["samples"] += (r.get("samples") or [])[:1]
        out.assumptions += ["trial decryption with the harness's wrapper and independent HMAC recomputation classify output values; AES-GCM/HKDF themselves are trusted"]
        seen_known = set()
        for kind, r in reps:
            for m in r["mismatches"] or []:
                if prop not in m["props"]:
                    continue
                cls = m.get("class") or ""
                if cls in known:
                    seen_known.add(cls)
                    continue
                out.violation("%s: %s: expected %s, observed %s (vector %s)" % (kind, m["what"], json.dumps(m["expected"])[:120], json.dumps(m["observed"])[:120], json.dumps(m["vector"])[:200]), m)
            for cls, n in (r.get("no_longer_reproduces") or {}).items():
                out.notes.append("finding %s no longer reproduces for %d shapes" % (cls, n))
        for cls in sorted(seen_known):
            out.known_finding("%s: %s" % (cls, known[cls]["what"]))
        for cls, f in known.items():
            if cls not in seen_known:
                out.notes.append("known finding %s did not reproduce in this run" % cls)
        if sum(r["vectors"] for _, r in reps) < 1000:
            raise Broken("too few vectors")
