"""FileSink family: C08 C15. Models: spec/filesink/FsSeq.tla (API level, replayed on the real sink),
FileSink.tla (step level with concurrent writers and Crash, exhaustive). Binding: graph replay in temp dirs,
concurrent-writer runs judged by real-time order, SIGKILL at every hook label and at random instants."""
import json, os, time, concurrent.futures as cf
from vlib import *

SEQ_INVS = ("INVARIANTS NoLossNoDupInOrder OnlyRetentionRemoves PrunedAreOldestOwn ActiveNeverPruned NeverWithoutLimits "
            "RetentionHolds ActiveHasPlainName ForeignKept\n")
STEP_INVS = "INVARIANTS NoLossNoDupInOrder AckedPrefix PrunedAreOldestOwn RetentionAfterRotation ActiveNeverPruned MutualExclusion\n"

# (max_bytes, max_files, dur_on, toor, mode)
CONFIGS = [(0, 0, False, False, 0), (4, 0, False, False, 0o664), (4, 2, False, True, 0), (4, 1, True, True, 0),
           (4, 1, True, False, 0o646), (4, 3, False, False, 0), (0, 2, True, True, 0), (1, 1, False, True, 0)]


def b(x):
    return "TRUE" if x else "FALSE"


def seq_cfg(c, depth, spec, invs=""):
    mb, mf, dur, toor, _ = c
    return ("CONSTANTS\n  MaxBytes = %d\n  MaxFiles = %d\n  DurOn = %s\n  TOOR = %s\n  Sizes = {1, 4, 5}\n  MaxDepth = %d\n"
            "SPECIFICATION %s\nVIEW View\n%sCHECK_DEADLOCK FALSE\n") % (mb, mf, b(dur), b(toor), depth, spec, invs)


def step_cfg(c, writers, events, aux):
    mb, mf, dur, toor = c
    return ("CONSTANTS\n  MaxBytes = %d\n  MaxFiles = %d\n  DurOn = %s\n  TOOR = %s\n  Writers = {%s}\n  Sizes = {1, 2}\n  MaxEvents = %d\n  D = 2\n  MaxAux = %d\n"
            "SPECIFICATION Spec\n%sCHECK_DEADLOCK FALSE\n") % (mb, mf, b(dur), b(toor), writers, events, aux, STEP_INVS)


TRACE_CFGS = [(100, 1, True), (100, 0, False), (150, 2, False), (0, 0, False), (60, 2, True)]


def fstrace(vh, scr, tc, seed, n, tag, corrupt=False):
    """Records n executions of the real sink for one configuration and validates them against FsTrace.tla."""
    import shutil, random
    mb, mf, toor = tc
    wd = scr.path("tlc-fst-" + tag)
    shutil.copytree(os.path.join(VERIF, "spec", "filesink"), wd)
    tf = os.path.join(wd, "fstraces.ndjson")
    p = run_vh(vh, ["fs-trace", "-seed", str(seed), "-n", str(n), "-maxbytes", str(mb), "-maxfiles", str(mf), "-toor=%s" % ("true" if toor else "false"), "-out", tf], timeout=900)
    if p.returncode != 0:
        raise Broken("fs-trace failed: " + p.stderr[-1000:])
    ids = [json.loads(l)["id"] for l in open(tf) if l.strip()]
    if corrupt:
        rng = random.Random(seed)
        lines = []
        for l in open(tf):
            t = json.loads(l)
            idx = [i for i, e in enumerate(t["ev"]) if e["e"] in ("written", "counted", "opened")]
            if not idx:
                continue
            i = rng.choice(idx)
            if rng.random() < 0.5:
                del t["ev"][i]                       # a step without its hook event
            else:
                t["ev"].insert(i, dict(t["ev"][i]))  # a step that happened twice
            lines.append(json.dumps(t))
        open(tf, "w").write("\n".join(lines) + "\n")
        ids = [json.loads(l)["id"] for l in lines]
    cfg = ("CONSTANTS\n  MaxBytes = %d\n  MaxFiles = %d\n  DurOn = FALSE\n  TOOR = %s\n  Writers = {\"w1\", \"w2\", \"w3\", \"c\"}\n  Sizes = {}\n  MaxEvents = 0\n  D = 0\n  MaxAux = 0\n"
           "INIT TInit\nNEXT TNext\nINVARIANTS TInv Report\nCHECK_DEADLOCK FALSE\n") % (mb, mf, b(toor))
    res = run_tlc(scr, "filesink", "FsTrace", cfg, "fst-" + tag, workers=2, timeout=900, heap="3g")
    acc = {}
    for line in open(res.out_path, errors="replace"):
        if line.startswith('<<"ACCEPT"'):
            parts = line.strip().strip("<>").split(",")
            acc[int(parts[1])] = acc.get(int(parts[1]), False) or parts[2].strip() == "TRUE"
    return ids, acc, res


def run(prop, tier, seed, out):
    quick = tier == "quick"
    with Scratch("fs") as scr:
        vh = build_harness(scr)
        with cf.ThreadPoolExecutor(max_workers=6) as ex:
            depth = 5 if quick else 6
            cfgs = CONFIGS[:5] if quick else CONFIGS
            f_design = [ex.submit(run_tlc, scr, "filesink", "MCFsSeq", seq_cfg(c, depth + 1, "Spec", SEQ_INVS), "seq-design-%d" % i, 2, 900, "3g")
                        for i, c in enumerate(cfgs)]
            steps = [((2, 1, True, True), '"w1", "w2"', 3 if quick else 4, 2), ((2, 1, True, False), '"w1", "w2"', 3 if quick else 4, 2),
                     ((0, 0, False, False), '"w1", "w2"', 3, 2)]
            if not quick:
                steps.append(((2, 2, False, True), '"w1", "w2", "w3"', 4, 2))
            f_step = [ex.submit(run_tlc, scr, "filesink", "FileSink", step_cfg(*s), "step-%d" % i, 4, 2400, "8g") for i, s in enumerate(steps)]
            f_exp = [(c, ex.submit(run_tlc, scr, "filesink", "MCFsSeq", seq_cfg(c, depth, "SpecE"), "seq-export-%d" % i, 1, 900, "3g"))
                     for i, c in enumerate(cfgs)]
            # stress: concurrent writers + crash points
            t0 = time.time()
            stp = scr.path("stress.json")
            p = run_vh(vh, ["fs-stress", "-seed", str(seed), "-conc", "25" if quick else "300", "-kmax", "2" if quick else "4",
                            "-random", "12" if quick else "200", "-out", stp], timeout=2400)
            if p.returncode != 0:
                raise Broken("fs-stress failed: " + p.stderr[-1500:])
            stress = json.load(open(stp))
            log("  fs-stress %.1fs conc=%d crash=%d killed=%d problems=%d" % (time.time() - t0, len(stress["conc"]), len(stress["crash"]), stress["killed"], stress["problems"]))
            reports = []
            for i, (c, f) in enumerate(f_exp):
                g = must_pass(f.result(), "FsSeq export")
                cfgp = scr.path("fcfg-%d.json" % i)
                json.dump({"max_bytes": c[0], "max_files": c[1], "dur_on": c[2], "toor": c[3], "mode": c[4], "seed": seed, "neg": i % 2 == 0}, open(cfgp, "w"))
                outp = scr.path("frep-%d.json" % i)
                t0 = time.time()
                p = run_vh(vh, ["fs-replay", "-cfg", cfgp, "-edges", g.out_path, "-out", outp, "-par", "16"], timeout=2400)
                if p.returncode != 0:
                    raise Broken("fs-replay failed: " + p.stderr[-1500:])
                r = json.load(open(outp))
                log("  replay cfg%d %s %5.1fs edges=%d skipped=%d mismatches=%d" % (i, c, time.time() - t0, r["edges"], r["skipped_timing"], r["mismatch_count"]))
                reports.append((c, r))
            # code -> spec: hook traces of concurrent executions validated against the step-level model
            f_tr = [ex.submit(fstrace, vh, scr, tc, seed + i, 25 if quick else 250, "t%d" % i) for i, tc in enumerate(TRACE_CFGS[:3 if quick else 5])]
            f_self = ex.submit(fstrace, vh, scr, TRACE_CFGS[0], seed + 99, 15, "self", True)
            tr_total, tr_acc = 0, 0
            for f in f_tr:
                ids, acc, res = f.result()
                if res.error:
                    raise Broken("FsTrace run failed: " + str(res.error))
                if res.violated:
                    out.violation("an execution of the real FileSink reaches a state of FileSink.tla that violates %s" % res.violated, {"tlc": res.out[-3000:]})
                out.add_tlc(res)
                tr_total += len(ids)
                tr_acc += sum(1 for i in ids if i in acc)
                bad_final = [i for i in ids if i in acc and not acc[i]]
                if bad_final:
                    out.violation("%d executions end with a directory that differs from the model's (first: trace %d)" % (len(bad_final), bad_final[0]), {"traces": bad_final[:5]})
                rej = [i for i in ids if i not in acc]
                if rej:
                    out.notes.append("MODEL-DRIFT: %d hook traces are not behaviours of FileSink.tla (step order differs from the model)" % len(rej))
            ids, acc, res = f_self.result()
            if res.error:
                raise Broken("FsTrace self-test failed to run: " + str(res.error))
            if any(acc.get(i) for i in ids):
                raise Broken("binding self-test failed: corrupted hook traces accepted: %s" % [i for i in ids if acc.get(i)][:5])
            for f in f_design + f_step:
                r = f.result()
                if r.violated:
                    raise Broken("FileSink model violates %s: specification error" % r.violated)
                must_pass(r, "filesink model")
                out.add_tlc(r)
        edges = sum(r["edges"] - r["skipped_timing"] for _, r in reports)
        cov = out.coverage
        cov["traces_validated_against_impl"] = edges + len(stress["conc"]) + len(stress["crash"]) + tr_acc
        cov["hook_traces_recorded"] = tr_total
        cov["hook_traces_accepted_by_FsTrace"] = tr_acc
        cov["evaluations"] = sum(r["comparisons"] for _, r in reports) + len(stress["conc"]) + len(stress["crash"])
        cov["distinct_nontrivial"] = sum(r["distinct_nontrivial"] for _, r in reports)
        cov["rotations_observed"] = sum(r["rotations_observed"] for _, r in reports)
        cov["skipped_for_ambiguous_timing"] = sum(r["skipped_timing"] for _, r in reports)
        cov["crash_runs"] = len(stress["crash"])
        cov["crash_runs_killed_midway"] = stress["killed"]
        cov["concurrent_writer_runs"] = len(stress["conc"])
        cov["rule"] = ("every transition of the bounded FsSeq model (8 configurations: size/time rotation, retention, naming mode, file mode) is executed on a real "
                       "FileSink in a fresh directory and the parsed directory compared; plus concurrent-writer runs and SIGKILL at every hook label; "
                       "non-trivial = distinct histories ending in an acknowledged write")
        for _, r in reports:
            cov["samples"] += (r.get("samples") or [])[:1]
        cov["samples"] += [c["case"] for c in stress["crash"][:2]]
        out.assumptions += ["a single write(2) of <= 200 bytes on an O_APPEND file is all-or-nothing with respect to SIGKILL",
                            "time-triggered rotation is judged only where the measured interval makes the outcome certain (other runs are skipped)"]
        if edges < 200:
            raise Broken("replay covered too little (%d edges)" % edges)
        if stress["killed"] < 5:
            raise Broken("crash harness killed only %d children midway" % stress["killed"])
        for c, r in reports:
            for m in r["mismatches"] or []:
                if "HARNESS" in m["props"]:
                    raise Broken("harness problem: " + m["what"])
                if prop in m["props"]:
                    out.violation("cfg %s: %s: expected %s, real sink %s" % (c, m["what"], json.dumps(m["expected"])[:200], json.dumps(m["observed"])[:200]), m)
                else:
                    out.notes.append("mismatch attributed to %s (not %s): %s" % (",".join(m["props"]), prop, m["what"]))
            if r["by_prop"].get(prop, 0) and not out.violations:
                out.violation("cfg %s: %d mismatches attributed to %s" % (c, r["by_prop"][prop], prop), (r["mismatches"] or [])[:3])
        for cr in stress["conc"]:
            for m in cr["mismatches"] or []:
                if "HARNESS" in m["props"]:
                    raise Broken("harness problem: " + m["what"])
                if prop in m["props"]:
                    out.violation("concurrent writers %s: %s: expected %s, observed %s" % (cr["cfg"], m["what"], m["expected"], m["observed"]), {"cfg": cr["cfg"], "mismatch": m})
        if prop == "C08":
            for cr in stress["crash"]:
                if cr.get("problem"):
                    if cr["problem"].startswith("HARNESS"):
                        raise Broken(cr["problem"])
                    out.violation("SIGKILL at %s (hit %d): %s" % (cr["case"]["label"], cr["case"]["k"], cr["problem"]), cr)
        out.notes = sorted(set(out.notes))[:10]
