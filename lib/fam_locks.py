"""Locks family: C12. Model: spec/locks/Locks.tla (RWMutex with writer preference, node mutex, re-entrant callbacks).
Binding: the scenario set (operation x re-entering callback x pending groups x parked writer) is run on the real
Broker under a watchdog; inside each callback the harness senses which Broker lock is held and the model is
re-checked with the sensed lock modes."""
import json, os, time, concurrent.futures as cf
from vlib import *

FAMILIES = [  # name, procs, progs, cbsends, gated, cbwrites
    ("p3", '"a", "b", "c"', "P3", '"process", "close", "reopen"', "TRUE", ""),
    ("p3b", '"a", "b", "c"', "P3b", '"process", "close", "reopen"', "TRUE", ""),
    ("p3n", '"a", "b", "c"', "P3", '"process", "close", "reopen"', "FALSE", ""),
    ("d1", '"a"', "P1", '"close"', "FALSE", ""),
    ("d2", '"a", "b"', "P2rs", '"process", "close"', "TRUE", ""),
    ("d3", '"a", "b"', "P2ow", '"reopen"', "FALSE", ""),
    ("w1", '"a"', "P1s", '', "FALSE", '"process"'),              # a node registers something from Process
    ("w2", '"a", "b"', "P2sw", '"process"', "FALSE", ""),       # nested Send vs a concurrent writer
    ("w3", '"a", "b"', "P2sw", '', "FALSE", '"process"'),
    ("f1", '"a", "b"', "P2f", '"process"', "FALSE", ""),        # failing precondition exits, then more calls
    ("t1", '"a", "b"', "P2t", '', "FALSE", ""),                  # Sends, a threshold setter, Sends again
    ("r1", '"a", "b"', "P2rw", '', "FALSE", ""),                 # getters among writers
    ("g1", '"a", "b"', "P2sw", '"process"', "TRUE", ""),        # gated filter flushing through the Broker from Process
]


def model(scr, fam, hold_close, hold_reopen, tag, hold_process="none", leak=False, leak_tl=False, rec_read=False, comp_gateable=False):
    name, procs, progs, cbs, gated, cbw = fam
    cfg = ('CONSTANTS\n  Procs = {%s}\n  Progs <- %s\n  CbSends = {%s}\n  GatedLock = %s\n  HoldClose = "%s"\n  HoldReopen = "%s"\n'
           '  HoldProcess = "%s"\n  CbWrites = {%s}\n  LeakOnFail = %s\n  LeakTL = %s\n  RecursiveRead = %s\n  ComposedGateable = %s\n'
           'SPECIFICATION Spec\nINVARIANT LockSanity\nPROPERTY EventuallyAllReturn\nCHECK_DEADLOCK TRUE\n') % (
               procs, progs, cbs, gated, hold_close, hold_reopen, hold_process, cbw, "TRUE" if leak else "FALSE", "TRUE" if leak_tl else "FALSE", "TRUE" if rec_read else "FALSE", "TRUE" if comp_gateable else "FALSE")
    return run_tlc(scr, "locks", "MCLocks", cfg, "%s-%s" % (name, tag), workers=2, timeout=600, heap="2g")


def run(prop, tier, seed, out):
    quick = tier == "quick"
    with Scratch("locks") as scr:
        vh = build_harness(scr)
        with cf.ThreadPoolExecutor(max_workers=6) as ex:
            f_ok = [(f, ex.submit(model, scr, f, "none", "none", "intended")) for f in FAMILIES]
            f_bad = [(f, ex.submit(model, scr, f, "W", "R", "pinned")) for f in FAMILIES if f[0] in ("d1", "d2", "d3")]
            f_bad += [(f, ex.submit(model, scr, f, "none", "none", "holdproc", "R")) for f in FAMILIES if f[0] in ("w1", "w2", "w3")]
            f_bad += [(f, ex.submit(model, scr, f, "none", "none", "leak", "none", True)) for f in FAMILIES if f[0] == "f1"]
            f_bad += [(f, ex.submit(model, scr, f, "none", "none", "leaktl", "none", False, True)) for f in FAMILIES if f[0] == "t1"]
            f_bad += [(f, ex.submit(model, scr, f, "none", "none", "recread", "none", False, False, True)) for f in FAMILIES if f[0] == "r1"]
            f_bad += [(f, ex.submit(model, scr, f, "none", "none", "compgate", "none", False, False, False, True)) for f in FAMILIES if f[0] == "g1"]
            outp = scr.path("locks.json")
            t0 = time.time()
            p = run_vh(vh, ["locks-run", "-out", outp, "-reps", "1" if quick else "30"], timeout=1500)
            if p.returncode != 0:
                if "panic" in p.stderr or "fatal error" in p.stderr:
                    out.violation("harness died running broker calls with re-entrant nodes: " + p.stderr[:300], {"stderr": p.stderr[-3000:]})
                    results = []
                else:
                    raise Broken("locks-run failed: " + p.stderr[-1500:])
            else:
                results = json.load(open(outp))["results"]
            log("  locks-run %.1fs scenarios=%d" % (time.time() - t0, len(results)))
            for f, fu in f_ok:
                r = fu.result()
                if r.violated:
                    raise Broken("Locks.tla (%s) with the intended lock modes violates %s: specification error" % (f[0], r.violated))
                must_pass(r, "locks model " + f[0])
                out.add_tlc(r)
            for f, fu in f_bad:
                r = fu.result()
                if r.violated != "deadlock":
                    raise Broken("Locks.tla (%s) with callbacks under the broker lock does not deadlock: the check is vacuous" % f[0])
            out.notes.append("vacuity: with Close under the write lock / Reopen under the read lock the model deadlocks in scenarios d1, d2, d3; "
                             "with Send keeping the read lock across Process in w1, w2, w3; with an error exit that keeps the write lock in f1; with a Send that returns between thresholdLock.RLock and RUnlock in t1; with a getter that takes the read lock twice in r1; with a composite that comes back into the gated filter's locked section in g1")
            held = {}
            for r in results:
                sc = r["scenario"]
                if r["lock_held"] not in ("none", "not-run"):
                    held[sc["cb"]] = r["lock_held"]
                if not r["returned"]:
                    if r.get("hung", "").startswith("(not reproduced"):
                        out.notes.append("scenario %s did not return once but returned on the second run" % sc["name"])
                        continue
                    out.violation("Broker call never returned: scenario %s; goroutines parked on Broker locks: %s" % (sc["name"], r.get("hung", "")[:400]), r)
                if r.get("err", "").startswith("harness:"):
                    raise Broken("locks harness assumption wrong: " + r["err"])
                if r.get("err", "").startswith("RemovePipelineAndNodes after"):
                    out.violation("after a call that failed its precondition the Broker misbehaves: scenario %s: %s" % (sc["name"], r["err"]), r)
                if r.get("err", "").startswith("panic"):
                    out.violation("Broker call panicked: scenario %s: %s" % (sc["name"], r["err"]), r)
            if held and not out.violations:
                # user code runs under a broker lock although no scenario hung: ask the model what that admits
                hc = "W" if held.get("close") else "none"
                hr = "R" if held.get("reopen") else "none"
                bad = []
                for f in FAMILIES:
                    r = model(scr, f, hc, hr, "sensed", "R" if held.get("process") or held.get("process-write") else "none")
                    if r.violated == "deadlock":
                        bad.append(f[0])
                out.notes.append("node callbacks run under a Broker lock (%s); Locks.tla with these modes deadlocks in %s, but no real run hung" % (held, bad or "no scenario"))
        cov = out.coverage
        cov["traces_validated_against_impl"] = len(results)
        cov["evaluations"] = len(results)
        cov["distinct_nontrivial"] = len({r["scenario"]["name"] for r in results if r["scenario"]["cb"] != "none"})
        cov["rule"] = "one evaluation = one scenario (operation x re-entering callback x pending gated groups x parked writer) run on a fresh real Broker under a 4 s watchdog"
        cov["samples"] = [r["scenario"] for r in results[:4]]
        cov["lock_modes_sensed"] = sorted({"%s:%s" % (r["scenario"]["cb"], r["lock_held"]) for r in results})
        out.assumptions += ["a call that has not returned after 4 s with goroutines parked in sync.RWMutex/Mutex under eventlogger.(*Broker) frames, reproduced on a second run, is a deadlock"]
        if len(results) < 20 and not out.violations:
            raise Broken("too few scenarios ran")
