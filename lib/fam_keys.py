"""Keys family: C16. Model: spec/encrypt/Keys.tla (key material epochs, per-event wrapper, rotation). Binding: code -> spec validation of
recorded histories of the real encrypt.Filter (KeysTrace.tla); every output value is classified by trial decryption / HMAC recomputation."""
import json, os, random, shutil, time
from vlib import *


def validate(scr, hist_path, tag):
    wd = scr.path("tlc-ktrace-" + tag)
    shutil.copytree(os.path.join(VERIF, "spec", "encrypt"), wd)
    shutil.copy(hist_path, os.path.join(wd, "histories.ndjson"))
    res = run_tlc(scr, "encrypt", "KeysTrace", "SPECIFICATION Spec\nINVARIANTS Inv Report\nCHECK_DEADLOCK FALSE\n", "ktrace-" + tag, workers=4, timeout=1800, heap="6g")
    acc = set()
    for line in open(res.out_path, errors="replace"):
        if line.startswith('<<"ACCEPT"'):
            acc.add(int(line.strip().strip("<>").split(",")[1]))
    ids = [json.loads(l)["id"] for l in open(hist_path) if l.strip()]
    return acc, ids, res


def run(prop, tier, seed, out):
    quick = tier == "quick"
    with Scratch("keys") as scr:
        vh = build_harness(scr)
        for ps in (("PSetA", '"a", "b", "r"'), ("PSetB", '"a", "r"')):
            r = run_tlc(scr, "encrypt", "MCKeys", 'CONSTANTS\n  Clients = {%s}\n  ProgSet <- %s\nSPECIFICATION Spec\nINVARIANTS ValueUsesMaterialInForce LaterEventsUseNew '
                        'OneDerivedWrapperPerEvent PerEventSaltInfoWin\nCHECK_DEADLOCK FALSE\n' % (ps[1], ps[0]), "keys-" + ps[0], workers=6, timeout=900, heap="6g")
            if r.violated:
                raise Broken("Keys.tla violates " + r.violated)
            must_pass(r, "Keys model")
            out.add_tlc(r)
        # "decrypts to exactly the original bytes / the digest is the HMAC of the original bytes" for every way a value is
        # reached: the Policy and Tags tables (struct fields, pointer-tagged strings and byte slices in Taggable maps)
        import fam_encrypt
        for kind, module, cfg in (("policy", "Policy", "SPECIFICATION Spec\nINVARIANTS Export\nCHECK_DEADLOCK FALSE\n"),
                                  ("tags", "Tags", "CONSTANT MaxTags = 2\nSPECIFICATION Spec\nINVARIANTS Export\nCHECK_DEADLOCK FALSE\n")):
            t = run_tlc(scr, "encrypt", module, cfg, "k-" + kind, workers=1, timeout=900, heap="3g")
            must_pass(t, module)
            out.add_tlc(t)
            r = fam_encrypt.replay(vh, scr, kind, t.out_path, seed, "k-" + kind)
            for m in r["mismatches"] or []:
                if "C16" in m["props"]:
                    out.violation("%s: %s: expected %s, observed %s (vector %s)" % (kind, m["what"], json.dumps(m["expected"])[:100], json.dumps(m["observed"])[:100], json.dumps(m["vector"])[:200]), m)
        hp = scr.path("histories.ndjson")
        outp = scr.path("krep.json")
        t0 = time.time()
        p = run_vh(vh, ["enc-replay", "-kind", "keys", "-vectors", hp, "-seed", str(seed), "-n", "200" if quick else "3000", "-out", outp], timeout=2400)
        if p.returncode != 0:
            raise Broken("keys recorder failed: " + p.stderr[-1500:])
        rep = json.load(open(outp))
        log("  keys recorder %.1fs histories=%d events=%d mismatches=%d" % (time.time() - t0, rep["vectors"], rep["runs"], rep["mismatch_count"]))
        acc, ids, res = validate(scr, hp, "real")
        if res.error:
            raise Broken("KeysTrace failed: " + str(res.error))
        if res.violated:
            out.violation("a recorded history reaches a state of Keys.tla that violates %s" % res.violated, {"tlc": res.out[-3000:]})
        out.add_tlc(res)
        rejected = [i for i in ids if i not in acc]
        # binding self-test: one value protected under a wrapper epoch that never existed / derived flag swapped: must be rejected
        rng = random.Random(seed)
        cp = scr.path("corrupt.ndjson")
        n = 0
        with open(cp, "w") as f:
            for line in open(hp):
                h = json.loads(line)
                vals = [(i, r) for i, r in enumerate(h["h"]) if r["k"] == "resp" and r.get("vals")]
                if not vals:
                    continue
                i, r = rng.choice(vals)
                v = rng.choice(r["vals"])
                if rng.random() < 0.5:
                    # a wrapper epoch that never existed in this history (a neighbouring epoch can be explained by a
                    # rotation that overlaps the event in a concurrent history)
                    v["w"] += 50 + rng.randrange(3)
                else:
                    v["der"] = not v["der"]
                f.write(json.dumps(h) + "\n")
                n += 1
                if n >= 30:
                    break
        acc2, ids2, res2 = validate(scr, cp, "selftest")
        if res2.error:
            raise Broken("self-test run failed: " + str(res2.error))
        if acc2:
            raise Broken("binding self-test failed: corrupted histories accepted: %s" % sorted(acc2)[:5])
        cov = out.coverage
        cov["traces_validated_against_impl"] = len(acc)
        cov["evaluations"] = rep["runs"]
        cov["distinct_nontrivial"] = rep["distinct_nontrivial"]
        cov["rule"] = ("one evaluation = one event processed by the real filter inside a random history of Rotate calls, rotation payloads and events (sequential and 2..4 concurrent "
                       "clients; byte strings incl. empty and non-UTF-8; event id / per-event salt / info present or absent); non-trivial = events whose every value was classified")
        cov["selftest_corrupted_histories_rejected"] = len(ids2)
        cov["samples"] = (rep.get("samples") or [])[:2]
        out.assumptions += ["trial decryption / HMAC recomputation over every key material that ever existed identifies the material used; AES-GCM and HKDF are trusted",
                            "one rotating client per history, so rotation labels follow the order in which rotations take effect"]
        for m in rep["mismatches"] or []:
            if prop in m["props"]:
                out.violation("%s: expected %s, observed %s" % (m["what"], m["expected"], str(m["observed"])[:200]), m)
        for i in rejected[:5]:
            h = [json.loads(l) for l in open(hp) if json.loads(l)["id"] == i][0]
            out.violation("history %d is not a behaviour of Keys.tla: some value was protected with key material that was not in force for its event" % i, h)
        if len(ids) < 20:
            raise Broken("too few histories")
