---------------------------- MODULE CloudEvents ----------------------------
(***************************************************************************)
(* cloudevents.FormatterFilter.Process (formatter_filters/cloudevents):    *)
(* the decision table from configuration, payload kind, signer state and   *)
(* predicate outcome to what Process does.  One initial state per vector.  *)
(* The relations between the stored document, `serialized` and             *)
(* `serialized_hmac` are checked by the replayer's abstraction function.   *)
(* Dev = {"sign_error_ignored"} re-creates the pinned tree (DESIGN.md F2). *)
(***************************************************************************)
EXTENDS Naturals, Sequences, FiniteSets, TLC, Json
CONSTANT Dev
Payloads == {"plain", "id", "data", "both", "emptyid"}
Formats == {"unset", "json", "text", "invalid"}
Schemas == {"unset", "set", "empty"}
Sources == {"set", "nil", "empty"}
Signers == {"absent", "ok", "failing"}
Preds == {"absent", "true", "false", "error"}
Vectors == {[payload |-> p, format |-> f, schema |-> s, source |-> so, signer |-> si, listed |-> l, pred |-> pr] :
              p \in Payloads, f \in Formats, s \in Schemas, so \in Sources, si \in Signers, l \in BOOLEAN, pr \in Preds}
ConfigValid(x) == x.source = "set" /\ x.format # "invalid" /\ x.schema # "empty"
MustSign(x) == x.signer # "absent" /\ x.listed
Outcome(x) ==
  IF ~ConfigValid(x) THEN "error"
  ELSE IF x.payload = "emptyid" THEN "error"
  ELSE IF MustSign(x) /\ x.signer = "failing" /\ "sign_error_ignored" \notin Dev THEN "error"
  ELSE IF x.pred = "error" THEN "error"
  ELSE IF x.pred = "false" THEN "dropped"
  ELSE IF MustSign(x) /\ x.signer = "ok" THEN "signed"
  ELSE "unsigned"
Key(x) == IF x.format = "text" THEN "cloudevents-text" ELSE "cloudevents-json"
VARIABLE v
Init == v \in Vectors
Next == UNCHANGED v
Spec == Init /\ [][Next]_v
Export == PrintT(ToJson([v |-> v, outcome |-> Outcome(v), key |-> Key(v)]))
InvalidConfigIsError == ~ConfigValid(v) => Outcome(v) = "error"
EmptyIdIsError == v.payload = "emptyid" => Outcome(v) = "error"
SignedIffListedAndSigner == (Outcome(v) = "signed") <=> (Outcome(v) \in {"signed", "unsigned"} /\ MustSign(v))
NeverForwardedUnsignedWhenSigningFailed == (MustSign(v) /\ v.signer = "failing") => Outcome(v) \notin {"unsigned", "signed"}
UnlistedNeverSigned == ~v.listed => Outcome(v) # "signed"
=============================================================================
