------------------------------- MODULE CeSeq -------------------------------
(***************************************************************************)
(* cloudevents.FormatterFilter as a state machine over the configuration   *)
(* that changes while the node is in use: the signer (Rotate) and the list *)
(* of event types to sign (an exported field).                             *)
(*   Rotate(s)    s non-nil: the signer becomes s;  returns nil            *)
(*   Rotate(nil)  refused with an error;  a refused call changes nothing   *)
(*   SetList(l)   SignEventTypes := l                                      *)
(*   Format(t)    an event of type t is formatted: it is signed by the     *)
(*                signer in force iff there is one and t is in the list in *)
(*                force, otherwise it goes out unsigned                    *)
(* Every sequence of up to MaxDepth steps is exported with the result of   *)
(* each step and replayed on one real FormatterFilter.                     *)
(* Dev = {"rotate_nil_clears"}: the refused Rotate(nil) has already        *)
(* assigned the nil signer.                                                *)
(***************************************************************************)
EXTENDS Naturals, Sequences, FiniteSets, TLC, Json
CONSTANTS MaxDepth, Dev
Signers == {"A", "B"}
Types == {"audit", "system"}
Lists == [none |-> {}, audit |-> {"audit"}, system |-> {"system"}, both |-> {"audit", "system"}]
VARIABLES signer, list, path, lost
vars == <<signer, list, path, lost>>
Init == signer \in {"none", "I"} /\ list = "none" /\ path = <<[a |-> "init", s |-> signer, r |-> "-"]>> /\ lost = FALSE
Step(rec) == Len(path) <= MaxDepth /\ path' = Append(path, rec)
Rotate(s) == signer' = s /\ Step([a |-> "rot", s |-> s, r |-> "ok"]) /\ UNCHANGED <<list, lost>>
RotateNil == /\ signer' = (IF "rotate_nil_clears" \in Dev THEN "none" ELSE signer)
             /\ lost' = (lost \/ signer' # signer)
             /\ Step([a |-> "rotnil", s |-> "-", r |-> "error"]) /\ UNCHANGED list
SetList(l) == list' = l /\ Step([a |-> "list", s |-> l, r |-> "-"]) /\ UNCHANGED <<signer, lost>>
SignedBy(t) == IF signer # "none" /\ t \in Lists[list] THEN signer ELSE "unsigned"
Format(t) == Step([a |-> "fmt", s |-> t, r |-> SignedBy(t)]) /\ UNCHANGED <<signer, list, lost>>
Next == (\E s \in Signers : Rotate(s)) \/ RotateNil \/ (\E l \in DOMAIN Lists : SetList(l)) \/ (\E t \in Types : Format(t))
Spec == Init /\ [][Next]_vars
(* a refused call changes nothing *)
RefusedCallChangesNothing == ~lost
(* listed types are signed whenever a signer was ever installed and never removed by a successful call: there is no *)
(* call that removes a signer, so once signer # "none" it stays so *)
SignerStays == [][signer # "none" => signer' # "none"]_vars
Export == (Len(path) = MaxDepth + 1) => PrintT(ToJson([path |-> path]))
=============================================================================
