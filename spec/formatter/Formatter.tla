----------------------------- MODULE Formatter -----------------------------
(***************************************************************************)
(* JSONFormatter, JSONFormatterFilter, Filter (formatter.go,               *)
(* formatter_filter.go, filter.go) as a decision table over payload        *)
(* classes, and Event.FormattedAs / Format (event.go) as a last-writer-    *)
(* wins register map under concurrent access.                              *)
(***************************************************************************)
EXTENDS Naturals, Sequences, FiniteSets, TLC, Json
CONSTANTS Writers, Keys, MaxVal
Nodes == {"formatter", "formatterfilter", "filter"}
PClasses == {"null", "bool", "smallint", "largeint", "float", "nan", "inf", "string", "ctrlstring", "nonutf8", "bytes",
             "map", "slice", "struct", "ptr", "chan", "func", "nested_ok", "nested_bad"}
Unencodable == {"nan", "inf", "chan", "func", "nested_bad"}
TClasses == {"plain", "special"}
Preds == {"absent", "true", "false", "error"}
Vectors == {[node |-> n, payload |-> p, type |-> t, pred |-> pr] : n \in Nodes, p \in PClasses, t \in TClasses, pr \in Preds}
Valid(x) == /\ (x.node = "formatter" => x.pred = "absent")
            /\ (x.node = "filter" => x.pred # "absent")
Outcome(x) ==
  IF x.node = "filter"
  THEN [res |-> CASE x.pred = "true" -> "forward" [] x.pred = "false" -> "drop" [] OTHER -> "error", stored |-> FALSE]
  ELSE IF x.payload \in Unencodable THEN [res |-> "error", stored |-> FALSE]
  ELSE IF x.node = "formatter" THEN [res |-> "forward", stored |-> TRUE]
  ELSE [res |-> CASE x.pred \in {"absent", "true"} -> "forward" [] x.pred = "false" -> "drop" [] OTHER -> "error", stored |-> TRUE]

VARIABLES v, table, pc, wrote, seen
vars == <<v, table, pc, wrote, seen>>
InitVec == /\ v \in {[x |-> x, exp |-> Outcome(x)] : x \in {y \in Vectors : Valid(y)}}
           /\ table = <<>> /\ pc = <<>> /\ wrote = <<>> /\ seen = <<>>
SpecVec == InitVec /\ [][UNCHANGED vars]_vars
Export == PrintT(ToJson(v))
ErrorStoresNothing == v.exp.res = "error" => (v.x.node = "formatterfilter" /\ v.x.pred = "error") \/ ~v.exp.stored
ForwardIffPredicate == /\ (v.x.node = "formatterfilter" /\ v.x.payload \notin Unencodable) => ((v.exp.res = "forward") <=> (v.x.pred \in {"absent", "true"}))
                       /\ v.x.node = "filter" => ((v.exp.res = "forward") <=> v.x.pred = "true")

(* the format table: each writer owns a counter and stores increasing values under a key; readers read *)
InitTab == /\ v = [x |-> "table"] /\ table = [k \in Keys |-> 0]
           /\ pc = [w \in Writers |-> 0] /\ wrote = [k \in Keys |-> 0] /\ seen = [k \in Keys |-> 0]
Store(w, k) == /\ pc[w] < MaxVal /\ pc' = [pc EXCEPT ![w] = @ + 1]
               /\ table' = [table EXCEPT ![k] = 10 * pc'[w] + 1]      \* one atomic step under the event's lock
               /\ wrote' = [wrote EXCEPT ![k] = table'[k]] /\ UNCHANGED <<v, seen>>
Read(k) == seen' = [seen EXCEPT ![k] = table[k]] /\ UNCHANGED <<v, table, pc, wrote>>
NextTab == (\E w \in Writers, k \in Keys : Store(w, k)) \/ (\E k \in Keys : Read(k))
SpecTab == InitTab /\ [][NextTab]_vars
LastWriterWins == \A k \in Keys : table[k] = wrote[k]
ReadsSeeWrittenValues == \A k \in Keys : seen[k] = 0 \/ \E n \in 1..MaxVal : seen[k] = 10 * n + 1
=============================================================================
