------------------------------ MODULE FsTrace ------------------------------
(***************************************************************************)
(* Validates executions of the real FileSink against the step-level model  *)
(* FileSink.tla.  A trace is the totally ordered list of                   *)
(*   inv / resp    public calls (Process of one event, Reopen) per client, *)
(*                 stamped before the call and after it returned;          *)
(*   opened, rclosed, renamed, pruned, written, counted                    *)
(*                 the file-sink hooks, emitted under the sink's mutex     *)
(*                 after the step they name;                               *)
(*   extrename     the harness renamed the active file to a foreign name   *)
(*                 (done while no call is in flight).                      *)
(* Steps without a hook (taking the mutex, the rotate check, "file already *)
(* open", "nothing left to prune", Reopen's stat, a failing rename) are    *)
(* silent: TLC inserts them between the logged events.  At the end the     *)
(* model's directory must equal the real directory listing.                *)
(***************************************************************************)
EXTENDS FileSink, Json
Traces == ndJsonDeserialize("fstraces.ndjson")
VARIABLES tr, l, res   \* res[w]: outcome of w's call between the (silent) release of the mutex and its logged response
T == Traces[tr].ev
tvars == <<vars, tr, l, res>>

TInit == Init /\ tr \in 1..Len(Traces) /\ l = 1 /\ res = [w \in Writers |-> "none"]
Ev == T[l]
Is(name) == l <= Len(T) /\ Ev.e = name
Adv == l' = l + 1 /\ UNCHANGED tr
Keep == UNCHANGED res
H == holder        \* the writer that holds the sink's mutex

BeginT == /\ Is("inv") /\ pc[Ev.w] = "idle" /\ res[Ev.w] = "none" /\ Keep
          /\ cur' = [cur EXCEPT ![Ev.w] = [id |-> (IF Ev.op = "write" THEN Ev.id ELSE 0), sz |-> (IF Ev.op = "write" THEN Ev.sz ELSE 0), op |-> Ev.op]]
          /\ Frame(Ev.w, "lock")
          /\ UNCHANGED <<inodes, dir, fd, fname, bw, lc, now, holder, acked, W, nextEv, aux, pruned, lost>>
NameKind == IF TOOR \/ ~RotEnabled THEN "act" ELSE "ts"
OpenedT == /\ Keep /\ Is("opened") /\ H # "none" /\ Ev.name = NameKind
           /\ \/ (pc[H] = "open" /\ fd = 0 /\ OpenIfNeeded(H))
              \/ ROpen(H)
              \/ RoOpen(H)
           /\ UNCHANGED lost
RClosedT == Keep /\ Is("rclosed") /\ H # "none" /\ RClose(H) /\ UNCHANGED lost
RenamedT == Keep /\ Is("renamed") /\ H # "none" /\ Lookup(ACT) # 0 /\ RRename(H) /\ UNCHANGED lost
PrunedT == Keep /\ Is("pruned") /\ H # "none" /\ MaxFiles > 0 /\ Cardinality(TsNames) > MaxFiles /\ RPrune(H) /\ UNCHANGED lost
WrittenT == Keep /\ Is("written") /\ H # "none" /\ Ev.n = cur[H].sz /\ Write(H) /\ UNCHANGED lost
CountedT == Keep /\ Is("counted") /\ H # "none" /\ Count(H) /\ UNCHANGED lost
(* the call's response is logged after it returned, i.e. after the mutex was released (a silent step) *)
RespT == /\ Is("resp") /\ pc[Ev.w] = "idle" /\ res[Ev.w] # "none"
         /\ Ev.ok = (res[Ev.w] = "ok")
         /\ res' = [res EXCEPT ![Ev.w] = "none"]
         /\ UNCHANGED vars
ExtT == /\ Keep /\ Is("extrename") /\ fd # 0 /\ Lookup(fname) = fd
        /\ dir' = (dir \ {<<fname, fd>>}) \cup {<<<<"ext", aux>>, fd>>} /\ aux' = aux + 1
        /\ UNCHANGED <<inodes, fd, fname, bw, lc, now, holder, pc, cur, acked, W, nextEv, pruned, lost>>
Consume == (BeginT \/ OpenedT \/ RClosedT \/ RenamedT \/ PrunedT \/ WrittenT \/ CountedT \/ RespT \/ ExtT) /\ Adv

(* silent steps: only those the hooks cannot see *)
Silent == /\ \E w \in Writers :
               \/ Lock(w)
               \/ (pc[w] = "open" /\ fd # 0 /\ OpenIfNeeded(w))
               \/ RotChk(w)
               \/ (pc[w] = "r_prune" /\ ~(MaxFiles > 0 /\ Cardinality(TsNames) > MaxFiles) /\ RPrune(w))
               \/ RoStat(w)
               \/ (pc[w] = "r_rename" /\ Lookup(ACT) = 0 /\ RRename(w))
          /\ UNCHANGED <<lost, tr, l, res>>
SilentUnlock == /\ \E w \in Writers : /\ pc[w] \in {"unlock", "fail", "ro_done"}
                                       /\ res' = [res EXCEPT ![w] = IF pc[w] = "fail" THEN "fail" ELSE "ok"]
                                       /\ Unlock(w)
                /\ UNCHANGED <<lost, tr, l>>
TNext == Consume \/ Silent \/ SilentUnlock
TSpec == TInit /\ [][TNext]_tvars

(* the model's directory at the end equals the real one *)
TsSeq == [i \in 1..Cardinality(TsNames) |->
            LET n == CHOOSE n \in TsNames : Cardinality({m \in TsNames : m[2] < n[2]}) = i - 1 IN inodes[Lookup(n)]]
ExtSeq == [k \in 1..Cardinality({e \in dir : e[1][1] = "ext"}) |-> inodes[Lookup(<<"ext", k - 1>>)]]
FinalMatches == /\ TsSeq = Traces[tr].final.ts
                /\ ExtSeq = Traces[tr].final.ext
                /\ (IF Lookup(ACT) = 0 THEN Traces[tr].final.act = <<"absent">> ELSE Traces[tr].final.act = <<"present", inodes[Lookup(ACT)]>>)
                /\ bw = Traces[tr].final.bw
Report == (l > Len(T) /\ \A w \in Writers : pc[w] = "idle" /\ res[w] = "none") => PrintT(<<"ACCEPT", Traces[tr].id, FinalMatches>>)
TInv == NoLossNoDupInOrder /\ AckedPrefix /\ PrunedAreOldestOwn /\ ActiveNeverPruned /\ MutualExclusion
=============================================================================
