------------------------------ MODULE FileSink ------------------------------
(***************************************************************************)
(* FileSink (file_sink.go) at step granularity: Process is                 *)
(*   lock -> open-if-needed -> rotate-check -> [close -> rename (timestamp-*)
(*   only mode) -> prune one file at a time -> open] -> write (one atomic  *)
(*   append of the whole event) -> count -> unlock (acknowledge)           *)
(* Reopen is lock -> stat (forget a vanished file) -> open -> unlock.      *)
(* 1..3 writer processes contend for the sink's mutex; ExternalRename      *)
(* moves the active file to a foreign name; Pause lets MaxDuration elapse; *)
(* Crash kills the process in any state: volatile state is lost, the       *)
(* directory and file contents stay.  Step labels are the hook points      *)
(* fs.opened, fs.r.closed, fs.r.renamed, fs.r.pruned, fs.written,          *)
(* fs.counted at which the crash harness kills the real process.           *)
(***************************************************************************)
EXTENDS Naturals, Sequences, FiniteSets, TLC
CONSTANTS MaxBytes, MaxFiles, DurOn, TOOR, Writers, Sizes, MaxEvents, D, MaxAux
VARIABLES inodes, dir, fd, fname, bw, lc, now, holder, pc, cur, acked, W, nextEv, aux, pruned, lost
vars == <<inodes, dir, fd, fname, bw, lc, now, holder, pc, cur, acked, W, nextEv, aux, pruned, lost>>
ACT == <<"act", 0>>
NONE == <<"none", 0>>
RotEnabled == MaxBytes > 0 \/ DurOn
Init == /\ inodes = <<>> /\ dir = {} /\ fd = 0 /\ fname = NONE /\ bw = 0 /\ lc = 0 /\ now = 0
        /\ holder = "none" /\ pc = [w \in Writers |-> "idle"] /\ cur = [w \in Writers |-> [id |-> 0, sz |-> 0, op |-> "none"]]
        /\ acked = <<>> /\ W = <<>> /\ nextEv = 1 /\ aux = 0 /\ pruned = {} /\ lost = {}
Lookup(n) == IF \E e \in dir : e[1] = n THEN (CHOOSE e \in dir : e[1] = n)[2] ELSE 0
TsNames == {e[1] : e \in {x \in dir : x[1][1] = "ts"}}
Oldest(S) == CHOOSE n \in S : \A m \in S : n[2] <= m[2]
DoOpen == LET t == now + 1
              name == IF TOOR \/ ~RotEnabled THEN ACT ELSE <<"ts", t>>
              ex == Lookup(name)
          IN /\ now' = t /\ lc' = t /\ bw' = 0 /\ fname' = name
             /\ IF ex # 0 THEN fd' = ex /\ UNCHANGED <<inodes, dir>>
                ELSE /\ inodes' = Append(inodes, <<>>) /\ fd' = Len(inodes) + 1
                     /\ dir' = dir \cup {<<name, Len(inodes) + 1>>}
Frame(w, p) == pc' = [pc EXCEPT ![w] = p]
Begin(w) == /\ pc[w] = "idle" /\ nextEv <= MaxEvents
            /\ \E s \in Sizes : cur' = [cur EXCEPT ![w] = [id |-> nextEv, sz |-> s, op |-> "write"]]
            /\ nextEv' = nextEv + 1 /\ Frame(w, "lock")
            /\ UNCHANGED <<inodes, dir, fd, fname, bw, lc, now, holder, acked, W, aux, pruned>>
BeginReopen(w) == /\ pc[w] = "idle" /\ aux < MaxAux /\ aux' = aux + 1
                  /\ cur' = [cur EXCEPT ![w] = [id |-> 0, sz |-> 0, op |-> "reopen"]] /\ Frame(w, "lock")
                  /\ UNCHANGED <<inodes, dir, fd, fname, bw, lc, now, holder, acked, W, nextEv, pruned>>
Lock(w) == /\ pc[w] = "lock" /\ holder = "none" /\ holder' = w
           /\ Frame(w, IF cur[w].op = "write" THEN "open" ELSE "ro_stat")
           /\ UNCHANGED <<inodes, dir, fd, fname, bw, lc, now, cur, acked, W, nextEv, aux, pruned>>
OpenIfNeeded(w) == /\ pc[w] = "open"
                   /\ IF fd = 0 THEN DoOpen ELSE UNCHANGED <<inodes, dir, fd, fname, bw, lc, now>>
                   /\ Frame(w, "rotchk") /\ UNCHANGED <<holder, cur, acked, W, nextEv, aux, pruned>>
NeedRotate == (MaxBytes > 0 /\ bw >= MaxBytes) \/ (DurOn /\ now - lc > D)
RotChk(w) == /\ pc[w] = "rotchk" /\ Frame(w, IF NeedRotate THEN "r_close" ELSE "write")
             /\ UNCHANGED <<inodes, dir, fd, fname, bw, lc, now, holder, cur, acked, W, nextEv, aux, pruned>>
RClose(w) == /\ pc[w] = "r_close" /\ fd' = 0 /\ Frame(w, IF TOOR THEN "r_rename" ELSE "r_prune")
             /\ UNCHANGED <<inodes, dir, fname, bw, lc, now, holder, cur, acked, W, nextEv, aux, pruned>>
RRename(w) == /\ pc[w] = "r_rename"
              /\ IF Lookup(ACT) = 0
                 THEN Frame(w, "fail") /\ UNCHANGED <<dir, now>>
                 ELSE /\ now' = now + 1
                      /\ dir' = (dir \ {<<ACT, Lookup(ACT)>>}) \cup {<<<<"ts", now + 1>>, Lookup(ACT)>>}
                      /\ Frame(w, "r_prune")
              /\ UNCHANGED <<inodes, fd, fname, bw, lc, holder, cur, acked, W, nextEv, aux, pruned>>
RPrune(w) == /\ pc[w] = "r_prune"
             /\ IF MaxFiles > 0 /\ Cardinality(TsNames) > MaxFiles
                THEN LET n == Oldest(TsNames) IN dir' = dir \ {<<n, Lookup(n)>>} /\ pruned' = pruned \cup {Lookup(n)} /\ UNCHANGED pc
                ELSE Frame(w, "r_open") /\ UNCHANGED <<dir, pruned>>
             /\ UNCHANGED <<inodes, fd, fname, bw, lc, now, holder, cur, acked, W, nextEv, aux>>
ROpen(w) == /\ pc[w] = "r_open" /\ DoOpen /\ Frame(w, "write")
            /\ UNCHANGED <<holder, cur, acked, W, nextEv, aux, pruned>>
Write(w) == /\ pc[w] = "write" /\ inodes' = [inodes EXCEPT ![fd] = Append(@, cur[w].id)]
            /\ W' = Append(W, cur[w].id) /\ Frame(w, "count")
            /\ UNCHANGED <<dir, fd, fname, bw, lc, now, holder, cur, acked, nextEv, aux, pruned>>
(* the write fails without writing anything (no space left): Process closes and reopens its file and tries once  *)
(* more; a second failure ends the call with an error - no acknowledgement. The retried write is not counted.     *)
WriteFail(w) == /\ pc[w] = "write" /\ aux < MaxAux /\ aux' = aux + 1 /\ Frame(w, "wr_stat")
                /\ UNCHANGED <<inodes, dir, fd, fname, bw, lc, now, holder, cur, acked, W, nextEv, pruned>>
WrStat(w) == /\ pc[w] = "wr_stat"
             /\ fd' = IF fd # 0 /\ Lookup(fname) = 0 THEN 0 ELSE fd
             /\ Frame(w, "wr_open") /\ UNCHANGED <<inodes, dir, fname, bw, lc, now, holder, cur, acked, W, nextEv, aux, pruned>>
WrOpen(w) == /\ pc[w] = "wr_open"
             /\ LET t == now + 1
                    name == IF TOOR \/ ~RotEnabled THEN ACT ELSE <<"ts", t>>
                    ex == Lookup(name)
                IN /\ now' = t /\ lc' = t /\ bw' = 0 /\ fname' = name
                   /\ IF ex # 0 THEN fd' = ex /\ UNCHANGED <<inodes, dir>>
                      ELSE inodes' = Append(inodes, <<>>) /\ fd' = Len(inodes) + 1 /\ dir' = dir \cup {<<name, Len(inodes) + 1>>}
             /\ Frame(w, "wr_retry") /\ UNCHANGED <<holder, cur, acked, W, nextEv, aux, pruned>>
WrRetry(w) == /\ pc[w] = "wr_retry"
              /\ \/ /\ inodes' = [inodes EXCEPT ![fd] = Append(@, cur[w].id)] /\ W' = Append(W, cur[w].id) /\ Frame(w, "unlock") /\ UNCHANGED aux
                 \/ /\ aux < MaxAux /\ aux' = aux + 1 /\ Frame(w, "fail") /\ UNCHANGED <<inodes, W>>
              /\ UNCHANGED <<dir, fd, fname, bw, lc, now, holder, cur, acked, nextEv, pruned>>
Count(w) == /\ pc[w] = "count" /\ bw' = bw + cur[w].sz /\ Frame(w, "unlock")
            /\ UNCHANGED <<inodes, dir, fd, fname, lc, now, holder, cur, acked, W, nextEv, aux, pruned>>
Unlock(w) == /\ pc[w] \in {"unlock", "fail", "ro_done"} /\ holder' = "none" /\ Frame(w, "idle")
             /\ acked' = IF pc[w] = "unlock" THEN Append(acked, cur[w].id) ELSE acked
             /\ UNCHANGED <<inodes, dir, fd, fname, bw, lc, now, cur, W, nextEv, aux, pruned>>
RoStat(w) == /\ pc[w] = "ro_stat"
             /\ fd' = IF fd # 0 /\ Lookup(fname) = 0 THEN 0 ELSE fd
             /\ Frame(w, "ro_open") /\ UNCHANGED <<inodes, dir, fname, bw, lc, now, holder, cur, acked, W, nextEv, aux, pruned>>
RoOpen(w) == /\ pc[w] = "ro_open"
             /\ LET t == now + 1
                    name == IF TOOR \/ ~RotEnabled THEN ACT ELSE <<"ts", t>>
                    ex == Lookup(name)
                IN /\ now' = t /\ lc' = t /\ bw' = 0 /\ fname' = name
                   /\ IF ex # 0 THEN fd' = ex /\ UNCHANGED <<inodes, dir>>
                      ELSE inodes' = Append(inodes, <<>>) /\ fd' = Len(inodes) + 1 /\ dir' = dir \cup {<<name, Len(inodes) + 1>>}
             /\ Frame(w, "ro_done") /\ UNCHANGED <<holder, cur, acked, W, nextEv, aux, pruned>>
ExtRename == /\ aux < MaxAux /\ fd # 0 /\ Lookup(fname) = fd /\ aux' = aux + 1
             /\ dir' = (dir \ {<<fname, fd>>}) \cup {<<<<"ext", aux>>, fd>>}
             /\ UNCHANGED <<inodes, fd, fname, bw, lc, now, holder, pc, cur, acked, W, nextEv, pruned>>
Pause == /\ DurOn /\ aux < MaxAux /\ aux' = aux + 1 /\ now' = now + D + 1
         /\ UNCHANGED <<inodes, dir, fd, fname, bw, lc, holder, pc, cur, acked, W, nextEv, pruned>>
Crash == /\ aux < MaxAux /\ aux' = aux + 1 /\ fd' = 0 /\ fname' = NONE /\ bw' = 0 /\ lc' = 0 /\ holder' = "none"
         /\ pc' = [w \in Writers |-> "idle"] /\ now' = now + 1
         /\ UNCHANGED <<inodes, dir, cur, acked, W, nextEv, pruned>>
NextA == \/ \E w \in Writers : Begin(w) \/ BeginReopen(w) \/ Lock(w) \/ OpenIfNeeded(w) \/ RotChk(w) \/ RClose(w) \/ RRename(w)
                               \/ RPrune(w) \/ ROpen(w) \/ Write(w) \/ WriteFail(w) \/ WrStat(w) \/ WrOpen(w) \/ WrRetry(w) \/ Count(w) \/ Unlock(w) \/ RoStat(w) \/ RoOpen(w)
         \/ ExtRename \/ Pause
Range(q) == {q[i] : i \in 1..Len(q)}
Next == (NextA /\ UNCHANGED lost) \/ (Crash /\ lost' = lost \cup (Range(W) \ Range(acked)))
Spec == Init /\ [][Next]_vars
-----------------------------------------------------------------------------
LinkedInodes == {e[2] : e \in dir}
IsPrefix(s, t) == Len(s) <= Len(t) /\ SubSeq(t, 1, Len(s)) = s
CAll[i \in 0..Len(inodes)] == IF i = 0 THEN <<>> ELSE CAll[i-1] \o inodes[i]
(* every written event is in exactly one inode, inodes in creation order concatenate to the write order;
   an inode without a directory entry was removed by retention *)
NoLossNoDupInOrder == CAll[Len(inodes)] = W /\ (\A i \in 1..Len(inodes) : i \in LinkedInodes \/ i \in pruned)
Wp == SelectSeq(W, LAMBDA x : x \notin lost)
(* acknowledged events are a prefix of what was written (minus events whose ack a crash cut off);
   at most one written event is unacknowledged: the one in flight *)
AckedPrefix == IsPrefix(acked, Wp) /\ Len(Wp) - Len(acked) <= 1
OwnLinked == {e[2] : e \in {x \in dir : x[1][1] # "ext"}}
PrunedAreOldestOwn == \A i \in pruned, j \in OwnLinked : i < j
RetentionAfterRotation == (MaxFiles > 0 /\ \E w \in Writers : pc[w] = "r_open") => Cardinality(TsNames) <= MaxFiles
ActiveNeverPruned == fd # 0 => fd \notin pruned
MutualExclusion == \A w \in Writers : pc[w] \notin {"idle", "lock"} => holder = w
=============================================================================
