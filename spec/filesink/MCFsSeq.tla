------------------------------ MODULE MCFsSeq ------------------------------
EXTENDS FsSeq, Json
NextE == Next /\ PrintT(ToJson([p |-> path, a |-> last', proj |-> Proj']))
SpecE == Init /\ [][NextE]_vars
=============================================================================
