------------------------------- MODULE FsSeq -------------------------------
(***************************************************************************)
(* FileSink (file_sink.go) at API granularity over an inode-level file     *)
(* system: a directory maps names to inodes, an inode holds the sequence   *)
(* of event ordinals written to it.  Names: ACT = the plain configured     *)
(* name, <<"ts",n>> = base name + the n-th timestamp handed out,           *)
(* <<"ext",k>> = a name outside the sink's name space (external rename).   *)
(* Process / Reopen are built from the pure functions OpenF, RotateF,      *)
(* PruneF, ReopenF which transcribe open(), rotate(), pruneFiles() and     *)
(* reopen().  Time is abstracted to "has MaxDuration elapsed since the     *)
(* active file was created" (exp), set by Pause.                           *)
(***************************************************************************)
EXTENDS Naturals, Sequences, FiniteSets, TLC

CONSTANTS MaxBytes, MaxFiles, DurOn, TOOR,  \* configuration
          Sizes,                            \* event sizes offered to Write
          MaxDepth

VARIABLES S, depth, nextEv, nextExt, last, path, W
vars == <<S, depth, nextEv, nextExt, last, path, W>>

ACT == <<"act", 0>>
NONE == <<"none", 0>>
RotEnabled == MaxBytes > 0 \/ DurOn
S0 == [inodes |-> <<>>, dir |-> {}, fd |-> 0, fname |-> NONE, bw |-> 0, exp |-> FALSE, ts |-> 0, err |-> FALSE,
       rot |-> 0, pruned |-> {}]
Lookup(s, n) == IF \E e \in s.dir : e[1] = n THEN (CHOOSE e \in s.dir : e[1] = n)[2] ELSE 0
TsNames(s) == {e[1] : e \in {x \in s.dir : x[1][1] = "ts"}}
Oldest(T) == CHOOSE n \in T : \A m \in T : n[2] <= m[2]

OpenF(s) == LET t == s.ts + 1
                name == IF TOOR \/ ~RotEnabled THEN ACT ELSE <<"ts", t>>
                ex == Lookup(s, name)
            IN IF ex # 0 THEN [s EXCEPT !.ts = t, !.bw = 0, !.exp = FALSE, !.fname = name, !.fd = ex]
               ELSE [s EXCEPT !.ts = t, !.bw = 0, !.exp = FALSE, !.fname = name, !.fd = Len(s.inodes) + 1,
                              !.inodes = Append(s.inodes, <<>>), !.dir = s.dir \cup {<<name, Len(s.inodes) + 1>>}]
RECURSIVE PruneF(_)
PruneF(s) == IF MaxFiles > 0 /\ Cardinality(TsNames(s)) > MaxFiles
             THEN LET n == Oldest(TsNames(s)) IN PruneF([s EXCEPT !.dir = s.dir \ {<<n, Lookup(s, n)>>}, !.pruned = @ \cup {Lookup(s, n)}])
             ELSE s
NeedRotate(s) == (MaxBytes > 0 /\ s.bw >= MaxBytes) \/ (DurOn /\ s.exp)
RotateF(s) == LET c == [s EXCEPT !.fd = 0, !.rot = @ + 1]
              IN IF TOOR
                 THEN IF Lookup(c, ACT) = 0 THEN [c EXCEPT !.err = TRUE]
                      ELSE LET t == c.ts + 1
                               r == [c EXCEPT !.ts = t, !.dir = (c.dir \ {<<ACT, Lookup(c, ACT)>>}) \cup {<<<<"ts", t>>, Lookup(c, ACT)>>}]
                           IN OpenF(PruneF(r))
                 ELSE OpenF(PruneF(c))
WriteF(s, ev, sz) == LET a == IF s.fd = 0 THEN OpenF(s) ELSE s
                         b == IF NeedRotate(a) THEN RotateF(a) ELSE a
                     IN IF b.err THEN [b EXCEPT !.err = FALSE]   \* Process returned an error; nothing written
                        ELSE [b EXCEPT !.inodes[b.fd] = Append(@, ev), !.bw = @ + sz]
WriteOK(s) == LET a == IF s.fd = 0 THEN OpenF(s) ELSE s IN ~(NeedRotate(a) /\ TOOR /\ Lookup(a, ACT) = 0)
ReopenF(s) == LET a == IF s.fd # 0 /\ Lookup(s, s.fname) = 0 THEN [s EXCEPT !.fd = 0] ELSE s
              IN OpenF([a EXCEPT !.fd = 0])

Step(a) == /\ depth < MaxDepth /\ depth' = depth + 1 /\ last' = a
           /\ path' = Append(path, [x \in {"a", "sz", "ev", "ok", "rotated", "texp"} \cap DOMAIN a |-> a[x]])
Init == S = S0 /\ depth = 0 /\ nextEv = 1 /\ nextExt = 0 /\ last = [a |-> "init"] /\ path = <<>> /\ W = <<>>
Write(sz) == /\ S' = WriteF(S, nextEv, sz) /\ nextEv' = nextEv + 1
             /\ W' = IF WriteOK(S) THEN Append(W, nextEv) ELSE W
             /\ Step([a |-> "write", sz |-> sz, ev |-> nextEv, ok |-> WriteOK(S),
                      rotated |-> (LET a == IF S.fd = 0 THEN OpenF(S) ELSE S IN NeedRotate(a)),
                      texp |-> (LET a == IF S.fd = 0 THEN OpenF(S) ELSE S IN a.exp)])
             /\ UNCHANGED nextExt
Reopen == S' = ReopenF(S) /\ Step([a |-> "reopen"]) /\ UNCHANGED <<nextEv, nextExt, W>>
ExtRename == /\ S.fd # 0 /\ Lookup(S, S.fname) = S.fd
             /\ S' = [S EXCEPT !.dir = (S.dir \ {<<S.fname, S.fd>>}) \cup {<<<<"ext", nextExt>>, S.fd>>}]
             /\ nextExt' = nextExt + 1 /\ Step([a |-> "extrename"]) /\ UNCHANGED <<nextEv, W>>
Pause == DurOn /\ ~S.exp /\ S' = [S EXCEPT !.exp = TRUE] /\ Step([a |-> "pause"]) /\ UNCHANGED <<nextEv, nextExt, W>>
Next == (\E sz \in Sizes : Write(sz)) \/ Reopen \/ ExtRename \/ Pause
Spec == Init /\ [][Next]_vars
View == <<S, depth, nextEv, nextExt, W>>

(* observable projection: own timestamped files oldest first, the plain active file, foreign files *)
TsSeq(s) == [i \in 1..Cardinality(TsNames(s)) |->
               LET n == CHOOSE n \in TsNames(s) : Cardinality({m \in TsNames(s) : m[2] < n[2]}) = i - 1 IN s.inodes[Lookup(s, n)]]
ProjOf(s) == [ts |-> TsSeq(s),
              act |-> IF Lookup(s, ACT) = 0 THEN <<"absent">> ELSE <<"present", s.inodes[Lookup(s, ACT)]>>,
              ext |-> [k \in 1..Cardinality({e \in s.dir : e[1][1] = "ext"}) |-> s.inodes[Lookup(s, <<"ext", k - 1>>)]],
              bw |-> s.bw, open |-> s.fd # 0, rot |-> s.rot]
Proj == ProjOf(S)

-----------------------------------------------------------------------------
(* C08 at API level *)
Flat(ss) == LET F[i \in 0..Len(ss)] == IF i = 0 THEN <<>> ELSE F[i-1] \o ss[i] IN F[Len(ss)]
AllInodes == Flat(S.inodes)                      \* inodes are created in time order
NoLossNoDupInOrder == AllInodes = W
Linked == {e[2] : e \in S.dir}
OnlyRetentionRemoves == \A i \in 1..Len(S.inodes) : i \in Linked \/ i \in S.pruned
OwnLinked == {e[2] : e \in {x \in S.dir : x[1][1] # "ext"}}
PrunedAreOldestOwn == \A i \in S.pruned, j \in OwnLinked : i < j
ActiveNeverPruned == S.fd # 0 => S.fd \notin S.pruned
(* C15 *)
NeverWithoutLimits == (MaxBytes = 0 /\ ~DurOn) => (S.rot = 0 /\ TsNames(S) = {})
RetentionHolds == (MaxFiles > 0 /\ last.a = "write" /\ last.rotated /\ last.ok) =>
                     Cardinality(TsNames(S)) <= MaxFiles + (IF TOOR THEN 0 ELSE 1)
ActiveHasPlainName == (TOOR /\ S.fd # 0) => S.fname = ACT
ForeignKept == \A k \in 0..(nextExt - 1) : Lookup(S, <<"ext", k>>) # 0
=============================================================================
