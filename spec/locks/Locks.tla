------------------------------- MODULE Locks -------------------------------
(***************************************************************************)
(* Lock protocol of the Broker (broker.go) and of nodes that own a mutex   *)
(* and call back into the Broker (filters/gated/gated.go).                 *)
(*                                                                         *)
(*   Broker.lock   Go's sync.RWMutex: a writer that has announced itself   *)
(*                 blocks new readers (writer preference), which is what   *)
(*                 turns "read lock held across a callback" into a         *)
(*                 deadlock as soon as a writer is waiting.                *)
(*   gl            the gated filter's own mutex, held across its Process   *)
(*                 and FlushAll/Close while it sends through the Broker.   *)
(*                                                                         *)
(* Each process runs a program of public Broker calls; a call is a stack   *)
(* of frames (a callback that re-enters Send pushes a Send frame).         *)
(*   Send    RLock; look up graph; RUnlock; run nodes with no broker lock; *)
(*           thresholdLock.RLock; read thresholds; RUnlock                 *)
(*   Thresh  Lock; thresholdLock.Lock; set; Unlock both  (threshold setters)*)
(*   Write   Lock; mutate; Unlock            (Register*, RemovePipeline,   *)
(*                                            threshold setters)           *)
(*   Read    RLock; read; RUnlock            (getters, IsAny...)           *)
(*   Remove  Lock; detach; Unlock; Close the detached nodes                *)
(*   Reopen  RLock; snapshot; RUnlock; Reopen the nodes                    *)
(*   WriteFail / RemoveFail   Lock; precondition fails; Unlock; return     *)
(* HoldClose / HoldReopen / HoldProcess say which broker lock is held      *)
(* while the node callback runs: "none" is the intended design; "W" / "R"  *)
(* re-create the pinned tree (DESIGN.md F6, deadlocks D1-D3) resp. a Send  *)
(* that keeps the read lock while its nodes run.  CbWrites: callbacks that *)
(* call a writing Broker method (a node registering something from         *)
(* Process).  LeakOnFail: a failing precondition exit that forgets Unlock. *)
(* ComposedGateable: what the gated filter sends through the Broker is      *)
(* itself a Gateable payload that the filter accepts, so the nested Send    *)
(* comes back into the filter's locked section (today ComposeFrom's result  *)
(* is refused with an error when it is Gateable, so the nested Send passes  *)
(* the filter without touching gl).                                         *)
(***************************************************************************)
EXTENDS Naturals, Sequences, FiniteSets, TLC

CONSTANTS Procs, Progs,        \* Progs[p] = sequence of ops in {"Send","Write","Read","Remove","Reopen"}
          CbSends,             \* callbacks that re-enter Send: subset of {"process","close","reopen"}
          GatedLock,           \* the re-entering node holds its own mutex across the callback (gated.Filter)
          HoldClose,           \* "none" | "W"
          HoldReopen,          \* "none" | "R"
          HoldProcess,         \* "none" | "R"
          CbWrites,            \* callbacks that re-enter a writing call: subset of {"process"}
          LeakOnFail,          \* BOOLEAN
          LeakTL,              \* BOOLEAN: a Send that finds its context done returns without releasing thresholdLock
          RecursiveRead,       \* BOOLEAN: a getter takes the Broker's read lock twice (a helper that locks, called under the lock)
          ComposedGateable     \* BOOLEAN: the nested Send of the gated filter needs the filter's mutex again

VARIABLES readers, writer, pendingW, gl, stack, pcnt,
          tlr, tlw           \* graph.thresholdLock of the event type: readers per process, writer
tl == <<tlr, tlw>>
vars == <<readers, writer, pendingW, gl, stack, pcnt, tlr, tlw>>

Init == /\ readers = [p \in Procs |-> 0] /\ writer = "none" /\ pendingW = {} /\ gl = "none"
        /\ stack = [p \in Procs |-> <<>>] /\ pcnt = [p \in Procs |-> 1]
        /\ tlr = [p \in Procs |-> 0] /\ tlw = "none"

NoReaders == \A p \in Procs : readers[p] = 0
Top(p) == stack[p][Len(stack[p])]
Push(p, f) == stack' = [stack EXCEPT ![p] = Append(@, f)]
Pop(p) == stack' = [stack EXCEPT ![p] = SubSeq(@, 1, Len(@) - 1)]
Set(p, pc) == stack' = [stack EXCEPT ![p] = Append(SubSeq(@, 1, Len(@) - 1), [Top(p) EXCEPT !.pc = pc])]
(* replace the top frame's pc and push a nested Send *)
Nest(p, pc) == stack' = [stack EXCEPT ![p] = Append(Append(SubSeq(@, 1, Len(@) - 1), [Top(p) EXCEPT !.pc = pc]), [op |-> "Send", pc |-> "start"])]
NestOp(p, pc, op) == stack' = [stack EXCEPT ![p] = Append(Append(SubSeq(@, 1, Len(@) - 1), [Top(p) EXCEPT !.pc = pc]), [op |-> op, pc |-> "start"])]
Depth(p) == Len(stack[p])

Begin(p) == /\ stack[p] = <<>> /\ pcnt[p] <= Len(Progs[p])
            /\ Push(p, [op |-> Progs[p][pcnt[p]], pc |-> "start"])
            /\ pcnt' = [pcnt EXCEPT ![p] = @ + 1] /\ UNCHANGED <<readers, writer, pendingW, gl>>

RLock(p) == writer = "none" /\ pendingW = {} /\ readers' = [readers EXCEPT ![p] = @ + 1]
RUnlock(p) == readers' = [readers EXCEPT ![p] = @ - 1]
WAnnounce(p) == writer = "none" /\ pendingW = {} /\ pendingW' = {p}
WAcquire(p) == p \in pendingW /\ NoReaders /\ writer = "none" /\ writer' = p /\ pendingW' = {}

(* the tail of graph.process: the thresholds are read under thresholdLock.RLock *)
SendTail(p) ==
  /\ stack[p] # <<>> /\ Top(p).op = "Send"
  /\ UNCHANGED <<readers, writer, pendingW, gl, pcnt>>
  /\ \/ Top(p).pc = "thr" /\ tlw = "none" /\ tlr' = [tlr EXCEPT ![p] = @ + 1] /\ Set(p, "thrheld") /\ UNCHANGED tlw
     \/ Top(p).pc = "thrheld" /\ tlr' = [tlr EXCEPT ![p] = @ - 1] /\ Pop(p) /\ UNCHANGED tlw
     \/ Top(p).pc = "thrheld" /\ LeakTL /\ Pop(p) /\ UNCHANGED tl          \* early return between RLock and RUnlock

SendBody(p) ==
  /\ stack[p] # <<>> /\ Top(p).op = "Send"
  /\ \/ Top(p).pc = "start" /\ RLock(p) /\ Set(p, "locked") /\ UNCHANGED <<writer, pendingW, gl, pcnt>>
     \/ /\ Top(p).pc = "locked" /\ (IF HoldProcess = "R" THEN UNCHANGED readers ELSE RUnlock(p))
        /\ Set(p, "process") /\ UNCHANGED <<writer, pendingW, gl, pcnt>>
     \/ /\ Top(p).pc = "process" /\ UNCHANGED <<writer, pendingW, pcnt>>
        /\ \/ /\ "process" \in CbSends /\ Depth(p) < 2
              /\ (IF GatedLock THEN gl = "none" /\ gl' = p ELSE UNCHANGED gl)
              /\ Nest(p, "inproc") /\ UNCHANGED readers
           \/ /\ "process" \in CbWrites /\ Depth(p) < 2
              /\ NestOp(p, "inwrite", "Write") /\ UNCHANGED <<readers, gl>>
           \/ /\ ("process" \notin (CbSends \cup CbWrites) \/ Depth(p) >= 2)
              \* the nested event passes the same filter: a Gateable one needs gl for its own critical section
              /\ (ComposedGateable /\ GatedLock /\ Depth(p) >= 2) => gl = "none"
              /\ Set(p, "thr") /\ UNCHANGED gl
              /\ (IF HoldProcess = "R" THEN RUnlock(p) ELSE UNCHANGED readers)
     \/ /\ Top(p).pc = "inproc" /\ (IF GatedLock THEN gl' = "none" ELSE UNCHANGED gl)
        /\ Set(p, "thr") /\ UNCHANGED <<writer, pendingW, pcnt>>
        /\ (IF HoldProcess = "R" THEN RUnlock(p) ELSE UNCHANGED readers)
     \/ /\ Top(p).pc = "inwrite" /\ Set(p, "thr") /\ UNCHANGED <<writer, pendingW, gl, pcnt>>
        /\ (IF HoldProcess = "R" THEN RUnlock(p) ELSE UNCHANGED readers)

SendStep(p) == (SendBody(p) /\ UNCHANGED tl) \/ SendTail(p)

(* SetSuccessThreshold / SetSuccessThresholdSinks: Broker write lock, then thresholdLock.Lock *)
ThreshStep(p) ==
  /\ stack[p] # <<>> /\ Top(p).op = "Thresh"
  /\ \/ Top(p).pc = "start" /\ WAnnounce(p) /\ Set(p, "wait") /\ UNCHANGED <<readers, writer, gl, pcnt, tlr, tlw>>
     \/ Top(p).pc = "wait" /\ WAcquire(p) /\ Set(p, "held") /\ UNCHANGED <<readers, gl, pcnt, tlr, tlw>>
     \/ /\ Top(p).pc = "held" /\ tlw = "none" /\ \A q \in Procs : tlr[q] = 0
        /\ tlw' = p /\ Set(p, "tl") /\ UNCHANGED <<readers, writer, pendingW, gl, pcnt, tlr>>
     \/ /\ Top(p).pc = "tl" /\ tlw' = "none" /\ writer' = "none" /\ Pop(p) /\ UNCHANGED <<readers, pendingW, gl, pcnt, tlr>>

WriteStep(p) ==
  /\ stack[p] # <<>> /\ Top(p).op = "Write"
  /\ \/ Top(p).pc = "start" /\ WAnnounce(p) /\ Set(p, "wait") /\ UNCHANGED <<readers, writer, gl, pcnt>>
     \/ Top(p).pc = "wait" /\ WAcquire(p) /\ Set(p, "held") /\ UNCHANGED <<readers, gl, pcnt>>
     \/ Top(p).pc = "held" /\ writer' = "none" /\ Pop(p) /\ UNCHANGED <<readers, pendingW, gl, pcnt>>

(* a writing / removing call whose precondition fails after the lock was taken *)
FailStep(p) ==
  /\ stack[p] # <<>> /\ Top(p).op \in {"WriteFail", "RemoveFail"}
  /\ \/ Top(p).pc = "start" /\ WAnnounce(p) /\ Set(p, "wait") /\ UNCHANGED <<readers, writer, gl, pcnt>>
     \/ Top(p).pc = "wait" /\ WAcquire(p) /\ Set(p, "held") /\ UNCHANGED <<readers, gl, pcnt>>
     \/ /\ Top(p).pc = "held" /\ (IF LeakOnFail THEN UNCHANGED writer ELSE writer' = "none")
        /\ Pop(p) /\ UNCHANGED <<readers, pendingW, gl, pcnt>>

ReadStep(p) ==
  /\ stack[p] # <<>> /\ Top(p).op = "Read"
  /\ \/ Top(p).pc = "start" /\ RLock(p) /\ Set(p, IF RecursiveRead THEN "outer" ELSE "locked") /\ UNCHANGED <<writer, pendingW, gl, pcnt>>
     \/ Top(p).pc = "outer" /\ RLock(p) /\ Set(p, "inner") /\ UNCHANGED <<writer, pendingW, gl, pcnt>>      \* blocks behind a waiting writer
     \/ Top(p).pc = "inner" /\ RUnlock(p) /\ Set(p, "locked") /\ UNCHANGED <<writer, pendingW, gl, pcnt>>
     \/ Top(p).pc = "locked" /\ RUnlock(p) /\ Pop(p) /\ UNCHANGED <<writer, pendingW, gl, pcnt>>

(* RemoveNode / RemovePipelineAndNodes *)
RemoveStep(p) ==
  /\ stack[p] # <<>> /\ Top(p).op = "Remove"
  /\ \/ Top(p).pc = "start" /\ WAnnounce(p) /\ Set(p, "wait") /\ UNCHANGED <<readers, writer, gl, pcnt>>
     \/ Top(p).pc = "wait" /\ WAcquire(p) /\ Set(p, "held") /\ UNCHANGED <<readers, gl, pcnt>>
     \/ /\ Top(p).pc = "held" /\ UNCHANGED <<readers, pendingW, gl, pcnt>>       \* bookkeeping done
        /\ IF HoldClose = "W" THEN Set(p, "close") /\ UNCHANGED writer
           ELSE writer' = "none" /\ Set(p, "close")
     \/ /\ Top(p).pc = "close" /\ UNCHANGED <<readers, writer, pendingW, pcnt>>   \* node.Close
        /\ (IF GatedLock THEN gl = "none" /\ gl' = p ELSE UNCHANGED gl)
        /\ IF "close" \in CbSends THEN Nest(p, "closing") ELSE Set(p, "closing")
     \/ /\ Top(p).pc = "closing" /\ (IF GatedLock THEN gl' = "none" ELSE UNCHANGED gl)
        /\ (IF HoldClose = "W" THEN writer' = "none" ELSE UNCHANGED writer)
        /\ Pop(p) /\ UNCHANGED <<readers, pendingW, pcnt>>

ReopenStep(p) ==
  /\ stack[p] # <<>> /\ Top(p).op = "Reopen"
  /\ \/ Top(p).pc = "start" /\ RLock(p) /\ Set(p, "locked") /\ UNCHANGED <<writer, pendingW, gl, pcnt>>
     \/ /\ Top(p).pc = "locked" /\ UNCHANGED <<writer, pendingW, gl, pcnt>>
        /\ IF HoldReopen = "R" THEN Set(p, "reopen") /\ UNCHANGED readers
           ELSE RUnlock(p) /\ Set(p, "reopen")
     \/ /\ Top(p).pc = "reopen" /\ UNCHANGED <<readers, writer, pendingW, gl, pcnt>>   \* node.Reopen
        /\ IF "reopen" \in CbSends /\ Depth(p) < 2 THEN Nest(p, "cb") ELSE Set(p, "cb")
     \/ /\ Top(p).pc = "cb" /\ (IF HoldReopen = "R" THEN RUnlock(p) ELSE UNCHANGED readers)
        /\ Pop(p) /\ UNCHANGED <<writer, pendingW, gl, pcnt>>

AllDone == \A p \in Procs : stack[p] = <<>> /\ pcnt[p] > Len(Progs[p])
Finished == AllDone /\ UNCHANGED vars
Next == \/ \E p \in Procs : (Begin(p) \/ WriteStep(p) \/ FailStep(p) \/ ReadStep(p) \/ RemoveStep(p) \/ ReopenStep(p)) /\ UNCHANGED tl
        \/ \E p \in Procs : SendStep(p) \/ ThreshStep(p)
        \/ Finished
Spec == Init /\ [][Next]_vars /\ WF_vars(Next)

(* C12: with TLC's deadlock check on, a reachable state without successor is a Broker call that never returns *)
EventuallyAllReturn == <>[]AllDone
LockSanity == /\ (tlw # "none" => \A q \in Procs : tlr[q] = 0)
              /\ (writer # "none" => NoReaders)
              /\ \A p \in Procs : readers[p] <= 2
=============================================================================
