------------------------------ MODULE MCLocks ------------------------------
EXTENDS Locks
\* scenario families: every broker operation x a callback that re-enters Send, with concurrent writers/senders
P1 == [p \in {"a"} |-> <<"Remove">>]
P2rs == [p \in {"a", "b"} |-> IF p = "a" THEN <<"Remove">> ELSE <<"Send">>]
P2ow == [p \in {"a", "b"} |-> IF p = "a" THEN <<"Reopen">> ELSE <<"Write">>]
P3 == [p \in {"a", "b", "c"} |-> CASE p = "a" -> <<"Remove", "Send">> [] p = "b" -> <<"Send", "Write">> [] p = "c" -> <<"Reopen", "Read">>]
P3b == [p \in {"a", "b", "c"} |-> CASE p = "a" -> <<"Send", "Remove">> [] p = "b" -> <<"Write", "Reopen">> [] p = "c" -> <<"Send", "Send">>]
P1s == [p \in {"a"} |-> <<"Send", "Read">>]
P2sw == [p \in {"a", "b"} |-> IF p = "a" THEN <<"Send", "Send">> ELSE <<"Write", "Read">>]
P2f == [p \in {"a", "b"} |-> IF p = "a" THEN <<"RemoveFail", "Send", "Write">> ELSE <<"WriteFail", "Read", "Remove">>]
P2t == [p \in {"a", "b"} |-> IF p = "a" THEN <<"Send", "Thresh", "Send">> ELSE <<"Send", "Read">>]
P2rw == [p \in {"a", "b"} |-> IF p = "a" THEN <<"Read", "Read", "Send">> ELSE <<"Write", "Read">>]
=============================================================================
