--------------------------- MODULE DispatchTrace ---------------------------
(***************************************************************************)
(* Validates executions recorded from the real Broker.Send against         *)
(* Dispatch.  A trace holds one log per goroutine (collector = the caller, *)
(* ranger + root instances, one per child instance, "main" for what the    *)
(* caller did before the call).  Each log is in program order; there is no *)
(* global order: TLC searches for an interleaving of the logs in which     *)
(* every event is explained by the Dispatch action it stands for.  The     *)
(* real execution order is one such interleaving, so a conforming          *)
(* execution is always accepted.  The rendezvous on the status channel is  *)
(* one step consuming the sender's "sent" and the collector's "recv".      *)
(***************************************************************************)
EXTENDS Integers, Sequences, FiniteSets, TLC, Json

Traces == ndJsonDeserialize("traces.ndjson")
Pipes == 1..4
MaxLen == 5
CancelAllowed == TRUE
Outs == {"pass", "replace", "drop", "err"}
Cfgs == {}
ThrPairs == {}

VARIABLES cfg, ctxDone, cpc, got, ret, rpc, remaining, cur, wg, closed, ipc, out, pend, calls, evin, evout, tr, idx
D == INSTANCE Dispatch
dvars == <<cfg, ctxDone, cpc, got, ret, rpc, remaining, cur, wg, closed, ipc, out, pend, calls, evin, evout>>

GoOf(i) == IF i[2] = 1 THEN "rng" ELSE "c" \o ToString(i[1]) \o "_" \o ToString(i[2])
Gs == {"main", "coll", "rng"} \cup {GoOf(i) : i \in D!Inst}
Log(g) == IF g \in DOMAIN Traces[tr].logs THEN Traces[tr].logs[g] ELSE <<>>
Has(g) == idx[g] <= Len(Log(g))
Ev(g) == Log(g)[idx[g]]
Adv(gs) == idx' = [g \in Gs |-> IF g \in gs THEN idx[g] + 1 ELSE idx[g]]
Is(g, name) == Has(g) /\ Ev(g).e = name
IsI(g, name, i) == Has(g) /\ Ev(g).e = name /\ Ev(g).p = i[1] /\ Ev(g).k = i[2]

Init == /\ tr \in 1..Len(Traces)
        /\ D!InitWith(Traces[tr].cfg) /\ ctxDone = FALSE
        /\ idx = [g \in Gs |-> 1]

CountId(id) == Cardinality({e \in got : e[2] = "complete" /\ cfg.nid[e[1][1]][e[1][2]] = id})
CountSinkId(id) == Cardinality({e \in got : e[2] = "complete" /\ cfg.sink[e[1][1]][e[1][2]] /\ cfg.nid[e[1][1]][e[1][2]] = id})
RetMatches(ev) ==
  /\ ret'.complete = ev.nc /\ ret'.sinks = ev.ns /\ ret'.warn = ev.nw
  /\ ret'.err = ev.err
  /\ (ev.err => ev.wraps = ret'.wraps)
  /\ ("complete" \in DOMAIN ev => \A id \in DOMAIN ev.complete : CountId(id) = ev.complete[id])
  /\ ("csinks" \in DOMAIN ev => \A id \in DOMAIN ev.csinks : CountSinkId(id) = ev.csinks[id])

(* One goroutine's next logged event, explained by the Dispatch action it stands for. *)
InstStep(i) == LET g == GoOf(i) IN
  \/ IsI(g, "call", i) /\ Ev(g).ein = evin[i] /\ D!NodeCall(i) /\ Adv({g})
  \/ IsI(g, "ret", i) /\ D!NodeRetO(i, Ev(g).o, Ev(g).eout) /\ Adv({g})
  \/ IsI(g, "spawn", i) /\ D!Spawn(i) /\ Adv({g})
  \/ IsI(g, "selctx", i) /\ D!SelCtx(i) /\ Adv({g})
  \/ /\ IsI(g, "sent", i) /\ Is("coll", "recv")
     /\ Ev("coll").kind = pend[i] /\ Ev("coll").nid = cfg.nid[i[1]][i[2]]
     /\ D!Handoff(i) /\ Adv({g, "coll"})
  \/ IsI(g, "exit", i) /\ (IF i[2] = 1 THEN D!ExitRoot(i) ELSE D!Exit(i)) /\ Adv({g})
RngStep ==
  \/ Is("rng", "visit") /\ D!RangeCheckOK /\ D!RangeVisit(Ev("rng").p) /\ Adv({"rng"})
  \/ Is("rng", "stop") /\ D!RangeStop /\ Adv({"rng"})
  \/ Is("rng", "rangeend") /\ (D!RangeEnd \/ (rpc = "wait" /\ UNCHANGED dvars)) /\ Adv({"rng"})
  \/ Is("rng", "waitdone") /\ D!WaitDone /\ Adv({"rng"})
  \/ Is("rng", "close") /\ D!Close /\ Adv({"rng"})
  \/ \E p \in Pipes : InstStep(<<p, 1>>)
CollStep ==
  \/ Is("coll", "ctx") /\ D!CollCtx /\ Adv({"coll"})
  \/ Is("coll", "closed") /\ D!CollClosed /\ Adv({"coll"})
  \/ Is("coll", "return") /\ D!Return(cfg.thr, cfg.thrS) /\ RetMatches(Ev("coll")) /\ Adv({"coll"})
CancelStep(g) == Is(g, "cancel") /\ (D!Cancel \/ (ctxDone /\ UNCHANGED dvars)) /\ Adv({g})

(* Search reduction.  Every action other than Cancel is monotone: once enabled it stays
   enabled until taken and taking it disables no other goroutine's step (Cancel is the only
   action that disables another one, RangeVisit).  Hence (i) cancel events are consumed only when
   no other event can be, and (ii) among the enabled events the one of the lowest-ranked goroutine
   is taken.  Any explaining interleaving can be permuted into this normal form, so validation is
   linear in the trace length instead of enumerating every consistent cut.  FullSearch = TRUE
   switches the reduction off (used by the driver to re-check a rejected trace). *)
FullSearch == FALSE
Ranks == {1, 2} \cup {10 * i[1] + i[2] : i \in {j \in D!Inst : j[2] >= 2}}
StepR(r) == IF r = 1 THEN CollStep ELSE IF r = 2 THEN RngStep ELSE InstStep(<<r \div 10, r % 10>>)
Step ==
  \/ Is("main", "cancel") /\ D!Cancel /\ Adv({"main"})
  \/ /\ ~Has("main")
     /\ IF FullSearch
        THEN (\E r \in Ranks : StepR(r)) \/ (\E g \in Gs \ {"main"} : CancelStep(g))
        ELSE IF \E r \in Ranks : ENABLED StepR(r)
             THEN \E r \in Ranks : StepR(r) /\ \A q \in Ranks : q < r => ~ENABLED StepR(q)
             ELSE \E g \in Gs \ {"main"} : CancelStep(g)
Next == Step /\ UNCHANGED tr
Spec == Init /\ [][Next]_<<dvars, tr, idx>>

AllConsumed == \A g \in Gs : ~Has(g)
\* an always-true invariant that reports acceptance of trace tr
Report == AllConsumed => PrintT(<<"ACCEPT", Traces[tr].id, D!AllQuiet>>)
\* every invariant of Dispatch is evaluated on every matched state
Inv == /\ D!AtMostOnce /\ D!OnlyValid /\ D!ForwardOnlyIf /\ D!CarryExact /\ D!RootsGetTheEvent
       /\ D!Truthful /\ D!OnePerPipe /\ D!CompleteWhenNotCancelled /\ D!ErrIff /\ D!WrapsOnlyIfDone /\ D!NeverInvented
       /\ D!WgNonNeg /\ D!ClosedOnlyAfterAll /\ D!NoSendOnClosed
=============================================================================
