------------------------------ MODULE Dispatch ------------------------------
(***************************************************************************)
(* The dispatch protocol of graph.process / graph.doProcess (graph.go):    *)
(*                                                                         *)
(*   collector   the caller's goroutine: select over ctx.Done and the      *)
(*               unbuffered status channel until closed / cancelled, then  *)
(*               Return (computes the error from the thresholds and        *)
(*               ctx.Err()).                                               *)
(*   ranger      the goroutine started by process: ranges over the roots,  *)
(*               checks ctx before each, wg.Add(1), runs the root instance *)
(*               itself (synchronously), then wg.Wait, close(statusChan).  *)
(*   instance    one doProcess activation <<p,k>> (pipeline p, position k):*)
(*               call node, node returns, then spawn the child (wg.Add(1), *)
(*               go) or select{ctx.Done / send status}, exit (wg.Done).    *)
(*                                                                         *)
(* One action per critical section / communication.  The configuration     *)
(* (pipeline lengths, which nodes are sinks, node ids, thresholds) is a    *)
(* variable fixed by Init, so one TLC run covers a set of configurations   *)
(* and the trace specification can take it from the recorded execution.    *)
(***************************************************************************)
EXTENDS Naturals, Sequences, FiniteSets, TLC

CONSTANTS Pipes,          \* subset of Nat: pipeline indices
          MaxLen,         \* maximal number of nodes in a pipeline
          Cfgs,           \* configurations explored by Init
          ThrPairs,       \* <<success threshold, sink threshold>> pairs explored by Return
          Outs,           \* node outcomes explored: subset of {"pass","replace","drop","err"}
          CancelAllowed   \* may the context be cancelled?

VARIABLES cfg,        \* [len, sink, nid, thr, thrS]
          ctxDone,    \* the caller's context is done
          cpc, got,   \* collector: pc in {"select","returned","exited"}; statuses received: set of <<i, kind>>
          ret,        \* what Send returned (set by Return)
          rpc, remaining, cur,   \* ranger: pc, pipelines not yet visited, root being run
          wg, closed, \* WaitGroup counter, status channel closed
          ipc,        \* instance pc: none, call, innode, spawn, sel, exit, done
          out,        \* node outcome: none, pass, replace, drop, err
          pend,       \* status of the instance: none, complete, warn, sent, dropped
          calls,      \* how often the node of the instance was invoked
          evin, evout \* event id handed to / returned by the node (0 = none, 1 = the Send's event)
vars == <<cfg, ctxDone, cpc, got, ret, rpc, remaining, cur, wg, closed, ipc, out, pend, calls, evin, evout>>

Inst == Pipes \X (1..MaxLen)
Valid(i) == i[2] <= cfg.len[i[1]]
VI == {i \in Inst : Valid(i)}
Active == {p \in Pipes : cfg.len[p] > 0}
IsLast(i) == i[2] = cfg.len[i[1]]
Child(i) == <<i[1], i[2] + 1>>
Fresh(i) == 100 + 10 * i[1] + i[2]
Seen == {1} \cup {evout[i] : i \in Inst}
NoRet == [complete |-> 0, sinks |-> 0, warn |-> 0, thr |-> 0, thrS |-> 0, err |-> FALSE, wraps |-> FALSE, valid |-> FALSE]

InitWith(c) ==
  /\ cfg = c
  /\ ctxDone \in (IF CancelAllowed THEN BOOLEAN ELSE {FALSE})   \* TRUE: cancelled before the call
  /\ cpc = "select" /\ got = {} /\ ret = NoRet
  /\ rpc = "range" /\ remaining = {p \in Pipes : c.len[p] > 0} /\ cur = 0
  /\ wg = 0 /\ closed = FALSE
  /\ ipc = [i \in Inst |-> "none"] /\ out = [i \in Inst |-> "none"] /\ pend = [i \in Inst |-> "none"]
  /\ calls = [i \in Inst |-> 0] /\ evin = [i \in Inst |-> 0] /\ evout = [i \in Inst |-> 0]
Init == \E c \in Cfgs : InitWith(c)

Cancel == /\ CancelAllowed /\ ~ctxDone /\ ctxDone' = TRUE
          /\ UNCHANGED <<cfg, cpc, got, ret, rpc, remaining, cur, wg, closed, ipc, out, pend, calls, evin, evout>>

(* ------------------------------ ranger ------------------------------ *)
RangeStop == /\ rpc = "range" /\ remaining # {} /\ ctxDone
             /\ rpc' = "wait"
             /\ UNCHANGED <<cfg, ctxDone, cpc, got, ret, remaining, cur, wg, closed, ipc, out, pend, calls, evin, evout>>
(* The context check and the start of the root are two steps of the code; the
   visit is enabled by a check that saw the context not done, so Cancel may
   come between the check and the visit: that is the interleaving
   RangeCheck-less formulation "visit while not done, or just after".      *)
RangeVisit(p) == /\ rpc = "range" /\ p \in remaining
                 /\ remaining' = remaining \ {p}
                 /\ cur' = p /\ rpc' = "inroot" /\ wg' = wg + 1
                 /\ ipc' = [ipc EXCEPT ![<<p, 1>>] = "call"]
                 /\ evin' = [evin EXCEPT ![<<p, 1>>] = 1]
                 /\ UNCHANGED <<cfg, ctxDone, cpc, got, ret, closed, out, pend, calls, evout>>
RangeCheckOK == rpc = "range" /\ ~ctxDone
RangeEnd == /\ rpc = "range" /\ remaining = {} /\ rpc' = "wait"
            /\ UNCHANGED <<cfg, ctxDone, cpc, got, ret, remaining, cur, wg, closed, ipc, out, pend, calls, evin, evout>>
WaitDone == /\ rpc = "wait" /\ wg = 0 /\ rpc' = "close"
            /\ UNCHANGED <<cfg, ctxDone, cpc, got, ret, remaining, cur, wg, closed, ipc, out, pend, calls, evin, evout>>
Close == /\ rpc = "close" /\ closed' = TRUE /\ rpc' = "done"
         /\ UNCHANGED <<cfg, ctxDone, cpc, got, ret, remaining, cur, wg, ipc, out, pend, calls, evin, evout>>

(* ----------------------------- instances ---------------------------- *)
NodeCall(i) == /\ Valid(i) /\ ipc[i] = "call"
               /\ ipc' = [ipc EXCEPT ![i] = "innode"]
               /\ calls' = [calls EXCEPT ![i] = @ + 1]
               /\ UNCHANGED <<cfg, ctxDone, cpc, got, ret, rpc, remaining, cur, wg, closed, out, pend, evin, evout>>
(* the node returns outcome o and (for pass/replace) event eid *)
NodeRetO(i, o, eid) ==
  /\ Valid(i) /\ ipc[i] = "innode"
  /\ o \in {"pass", "replace", "drop", "err"}
  /\ (o = "pass" => eid = evin[i]) /\ (o = "replace" => eid \notin Seen /\ eid > 1) /\ (o \in {"drop", "err"} => eid = 0)
  /\ out' = [out EXCEPT ![i] = o]
  /\ evout' = [evout EXCEPT ![i] = eid]
  /\ IF o \in {"pass", "replace"} /\ ~IsLast(i)
     THEN ipc' = [ipc EXCEPT ![i] = "spawn"] /\ pend' = pend
     ELSE /\ ipc' = [ipc EXCEPT ![i] = "sel"]
          /\ pend' = [pend EXCEPT ![i] = IF o = "err" THEN "warn" ELSE "complete"]
  /\ UNCHANGED <<cfg, ctxDone, cpc, got, ret, rpc, remaining, cur, wg, closed, calls, evin>>
NodeRet(i) == \E o \in Outs : \E eid \in {0, evin[i], Fresh(i)} : NodeRetO(i, o, eid)
Spawn(i) == /\ Valid(i) /\ ipc[i] = "spawn"
            /\ wg' = wg + 1
            /\ ipc' = [ipc EXCEPT ![i] = "exit", ![Child(i)] = "call"]
            /\ evin' = [evin EXCEPT ![Child(i)] = evout[i]]
            /\ UNCHANGED <<cfg, ctxDone, cpc, got, ret, rpc, remaining, cur, closed, out, pend, calls, evout>>
SelCtx(i) == /\ Valid(i) /\ ipc[i] = "sel" /\ ctxDone
             /\ ipc' = [ipc EXCEPT ![i] = "exit"]
             /\ pend' = [pend EXCEPT ![i] = "dropped"]
             /\ UNCHANGED <<cfg, ctxDone, cpc, got, ret, rpc, remaining, cur, wg, closed, out, calls, evin, evout>>
(* rendezvous on the unbuffered status channel: one joint step of sender and collector *)
Handoff(i) == /\ Valid(i) /\ ipc[i] = "sel" /\ cpc = "select" /\ ~closed
              /\ got' = got \cup {<<i, pend[i]>>}
              /\ ipc' = [ipc EXCEPT ![i] = "exit"]
              /\ pend' = [pend EXCEPT ![i] = "sent"]
              /\ UNCHANGED <<cfg, ctxDone, cpc, ret, rpc, remaining, cur, wg, closed, out, calls, evin, evout>>
Exit(i) == /\ Valid(i) /\ i[2] > 1 /\ ipc[i] = "exit"
           /\ wg' = wg - 1 /\ ipc' = [ipc EXCEPT ![i] = "done"]
           /\ UNCHANGED <<cfg, ctxDone, cpc, got, ret, rpc, remaining, cur, closed, out, pend, calls, evin, evout>>
(* the root instance runs inside the ranger's goroutine: its exit resumes the range *)
ExitRoot(i) == /\ Valid(i) /\ i[2] = 1 /\ ipc[i] = "exit" /\ rpc = "inroot" /\ cur = i[1]
               /\ wg' = wg - 1 /\ ipc' = [ipc EXCEPT ![i] = "done"] /\ rpc' = "range" /\ cur' = 0
               /\ UNCHANGED <<cfg, ctxDone, cpc, got, ret, remaining, closed, out, pend, calls, evin, evout>>

(* ----------------------------- collector ---------------------------- *)
CollCtx == /\ cpc = "select" /\ ctxDone /\ cpc' = "returned"
           /\ UNCHANGED <<cfg, ctxDone, got, ret, rpc, remaining, cur, wg, closed, ipc, out, pend, calls, evin, evout>>
CollClosed == /\ cpc = "select" /\ closed /\ cpc' = "returned"
              /\ UNCHANGED <<cfg, ctxDone, got, ret, rpc, remaining, cur, wg, closed, ipc, out, pend, calls, evin, evout>>
NComplete == Cardinality({e \in got : e[2] = "complete"})
NSinks == Cardinality({e \in got : e[2] = "complete" /\ cfg.sink[e[1][1]][e[1][2]]})
NWarn == Cardinality({e \in got : e[2] = "warn"})
(* Return reads the thresholds (t, s) of the event type and the context's error *)
Return(t, s) ==
          /\ cpc = "returned" /\ cpc' = "exited"
          /\ ret' = [complete |-> NComplete, sinks |-> NSinks, warn |-> NWarn, thr |-> t, thrS |-> s,
                     err |-> (NComplete < t \/ NSinks < s), wraps |-> ctxDone, valid |-> TRUE]
          /\ UNCHANGED <<cfg, ctxDone, got, rpc, remaining, cur, wg, closed, ipc, out, pend, calls, evin, evout>>

Ranger == RangeStop \/ (RangeCheckOK /\ \E p \in Pipes : RangeVisit(p)) \/ RangeEnd \/ WaitDone \/ Close
Coll == CollCtx \/ CollClosed \/ (\E tu \in ThrPairs : Return(tu[1], tu[2]))
AllQuiet == /\ cpc = "exited" /\ rpc = "done" /\ \A i \in Inst : ipc[i] \in {"none", "done"}
(* terminal stuttering step, so that TLC's deadlock check means "stuck before the end" *)
Finished == AllQuiet /\ UNCHANGED vars
InstNext(i) == NodeCall(i) \/ NodeRet(i) \/ Spawn(i) \/ SelCtx(i) \/ Handoff(i) \/ Exit(i) \/ ExitRoot(i)
Next == Cancel \/ Ranger \/ Coll \/ (\E i \in Inst : InstNext(i)) \/ Finished

Fair == /\ WF_vars(Ranger) /\ WF_vars(Coll)
        /\ \A i \in Inst : WF_vars(InstNext(i))
Spec == Init /\ [][Next]_vars /\ Fair
SpecCollOnly == Init /\ [][Next]_vars /\ WF_vars(Coll)   \* nodes may never return

-----------------------------------------------------------------------------

(* C01 *)
AtMostOnce == \A i \in Inst : calls[i] <= 1
OnlyValid == \A i \in Inst : ~Valid(i) => ipc[i] = "none"
ForwardOnlyIf == \A i \in VI : i[2] > 1 => (ipc[i] # "none" => out[<<i[1], i[2]-1>>] \in {"pass", "replace"})
CarryExact == \A i \in VI : (i[2] > 1 /\ ipc[i] # "none") => evin[i] = evout[<<i[1], i[2]-1>>]
RootsGetTheEvent == \A i \in VI : (i[2] = 1 /\ ipc[i] # "none") => evin[i] = 1
ForwardIf == \A i \in {j \in Inst : j[2] < MaxLen} :
               (Valid(i) /\ out[i] \in {"pass", "replace"} /\ ~IsLast(i)) ~> (calls[Child(i)] = 1)
AllStartedWhenNotCancelled == <>(ctxDone \/ \A p \in Active : calls[<<p, 1>>] = 1)

(* C02 *)
Truthful == \A e \in got : /\ e[2] = "complete" => (out[e[1]] = "drop" \/ (out[e[1]] \in {"pass", "replace"} /\ IsLast(e[1])))
                           /\ e[2] = "warn" => out[e[1]] = "err"
                           /\ e[2] \in {"complete", "warn"}
OnePerPipe == \A e1, e2 \in got : e1[1][1] = e2[1][1] => e1 = e2
CompleteWhenNotCancelled == (cpc \in {"returned", "exited"} /\ ~ctxDone) => Cardinality(got) = Cardinality(Active)
ErrIff == ret.valid => /\ ret.err <=> (ret.complete < ret.thr \/ ret.sinks < ret.thrS)
                       /\ ret.complete = NComplete /\ ret.sinks = NSinks /\ ret.warn = NWarn
                       /\ ret.sinks <= ret.complete
WrapsOnlyIfDone == ret.valid /\ ret.wraps => ctxDone
NeverInvented == \A e \in got : pend[e[1]] = "sent"

(* C03 *)
WgNonNeg == wg >= 0
ClosedOnlyAfterAll == closed => \A i \in Inst : ipc[i] \in {"none", "done"}
NoSendOnClosed == \A i \in VI : ipc[i] = "sel" => ~closed
Terminated == <>[]AllQuiet
PromptOnCancel == (ctxDone /\ cpc = "select") ~> (cpc = "exited")
ReturnsWhenNoCancel == <>(cpc = "exited")
=============================================================================
