---------------------------- MODULE MCDispatch ----------------------------
EXTENDS Dispatch
\* configurations: lengths per pipeline (0 = absent); the last node is a sink, others not
MkCfg(lens, thr, thrS, sinkMid) ==
  [len |-> lens,
   sink |-> [p \in Pipes |-> [k \in 1..MaxLen |-> k = lens[p] \/ (sinkMid /\ k = 1 /\ lens[p] > 2)]],
   nid |-> [p \in Pipes |-> [k \in 1..MaxLen |-> "n"]],
   thr |-> thr, thrS |-> thrS]
Cfg33 == {MkCfg([p \in Pipes |-> 3], 0, 0, FALSE)}
Cfg23 == {MkCfg([p \in Pipes |-> IF p <= 2 THEN 3 ELSE 0], 0, 0, FALSE)}
CfgMixed == {MkCfg(l, 0, 0, FALSE) : l \in {<<2, 2, 2>>, <<3, 2, 0>>, <<2, 0, 0>>, <<0, 0, 0>>, <<3, 3, 0>>, <<4, 2, 0>>}}
CfgThr == {MkCfg(l, t, s, m) : l \in {<<2, 2, 0>>, <<3, 2, 0>>}, t \in 0..3, s \in 0..3, m \in BOOLEAN}
CfgLiveQ == {MkCfg(l, 1, 1, FALSE) : l \in {<<2, 2>>, <<2, 0>>}}
CfgRepl == {MkCfg(l, 0, 0, m) : l \in {<<3, 0, 0>>, <<2, 2, 0>>}, m \in BOOLEAN}
CfgQuick == {MkCfg(l, 1, 1, FALSE) : l \in {<<3, 2, 0>>, <<2, 2, 0>>, <<1, 0, 0>>, <<0, 0, 0>>}}
ThrAll == (0..4) \X (0..4)
ThrFew == {<<1, 1>>, <<2, 0>>, <<0, 3>>}
ThrOne == {<<1, 1>>}
Cfg15 == {MkCfg(<<5, 0, 0>>, 1, 1, FALSE), MkCfg(<<5, 2, 0>>, 1, 1, TRUE)}
Cfg42 == {MkCfg([p \in Pipes |-> 2], 2, 2, FALSE)}
CfgLive == {MkCfg(l, 1, 1, FALSE) : l \in {<<3, 2>>, <<2, 2>>}}
=============================================================================
