------------------------------- MODULE Sinks -------------------------------
(***************************************************************************)
(* Sinks (sinks/writer/writer.go, sinks/channel/channel_sink.go, the       *)
(* format handling and special paths of file_sink.go).                     *)
(*                                                                         *)
(* Part 1 - a decision table, one initial state per vector:                *)
(*   writer vectors   format table (subset of Formats) x configured format *)
(*                    x writer behaviour x sink kind -> outcome            *)
(*   channel vectors  logical instants at which the channel becomes ready, *)
(*                    the timeout fires and the context is done -> the set *)
(*                    of admissible outcomes and the latest return instant *)
(* Part 2 - writer.Sink under concurrent Process calls: each call is       *)
(*   check format; lock; write (all bytes / fails); unlock.  The output is *)
(*   the sequence of chunks the writer saw.  Dev = {"no_mutex"} splits the *)
(*   write into two halves that other calls may interleave.                *)
(***************************************************************************)
EXTENDS Naturals, Sequences, FiniteSets, TLC, Json

CONSTANTS Callers, Dev
Formats == {"json", "text", "cef"}
Configured == {"", "json", "text", "xml"}
WBehs == {"ok", "err", "short"}
Kinds == {"writer", "file", "devnull", "stdout", "stderr", "devfull"}
Inf == 9

(* ---------------- Part 1: vectors ---------------- *)
WVectors == {[kind |-> k, table |-> t, conf |-> c, wb |-> w] : k \in Kinds, t \in SUBSET Formats, c \in Configured, w \in WBehs}
(* an arbitrary io.Writer may fail or write short; a file may take only part of a record (file-size limit, *)
(* volume full): FileSink then reopens its file and writes the record again, once                          *)
WValid(v) == /\ (v.kind \notin {"writer", "file"} => v.wb = "ok")
             /\ (v.kind = "file" => v.wb \in {"ok", "short"})
Eff(c) == IF c = "" THEN "json" ELSE c
WOutcome(v) ==
  IF v.kind = "devnull" THEN [ok |-> TRUE, written |-> FALSE, retried |-> FALSE]      \* pass-through special: success, nothing written
  ELSE IF Eff(v.conf) \notin v.table THEN [ok |-> FALSE, written |-> FALSE, retried |-> FALSE]   \* no bytes for that format
  \* retried: an error, or - when the second attempt on the reopened file succeeds - success with the whole record once
  \* and contiguously in one file (what the failed attempt left behind is not part of any acknowledged record)
  ELSE IF v.kind = "file" /\ v.wb = "short" THEN [ok |-> FALSE, written |-> FALSE, retried |-> TRUE]
  ELSE IF v.kind = "devfull" \/ v.wb \in {"err", "short"} THEN [ok |-> FALSE, written |-> FALSE, retried |-> FALSE]
  ELSE [ok |-> TRUE, written |-> TRUE, retried |-> FALSE]                             \* exactly the stored bytes, once

CVectors == {[ready |-> d, timeout |-> t, cancel |-> c] : d \in {0, 2, Inf}, t \in {1, 3}, c \in {0, 2, Inf}}
Min3(a, b, c) == IF a <= b /\ a <= c THEN a ELSE IF b <= c THEN b ELSE c
COutcomes(v) == LET m == Min3(v.ready, v.timeout, v.cancel)
                IN [allowed |-> ({"delivered"} \cap (IF v.ready = m THEN {"delivered"} ELSE {}))
                                 \cup (IF v.timeout = m THEN {"timeout"} ELSE {}) \cup (IF v.cancel = m THEN {"ctx"} ELSE {}),
                    by |-> m]

VARIABLES vec, pc, lockHolder, output, acks, half
vars == <<vec, pc, lockHolder, output, acks, half>>

InitVec == /\ vec \in {[t |-> "w", v |-> v, exp |-> WOutcome(v)] : v \in {x \in WVectors : WValid(x)}}
                     \cup {[t |-> "c", v |-> v, exp |-> COutcomes(v)] : v \in CVectors}
           /\ pc = [c \in Callers |-> "done"] /\ lockHolder = 0 /\ output = <<>> /\ acks = {} /\ half = [c \in Callers |-> 0]
ExportVec == PrintT(ToJson(vec))
(* table properties *)
MissingFormatIsError == (vec.t = "w" /\ vec.v.kind # "devnull" /\ Eff(vec.v.conf) \notin vec.v.table) => ~vec.exp.ok
WriteFailureIsError == (vec.t = "w" /\ (vec.v.wb # "ok" \/ vec.v.kind = "devfull")) => ~vec.exp.ok
AckImpliesWritten == (vec.t = "w" /\ vec.exp.ok /\ vec.v.kind # "devnull") => vec.exp.written
ExactlyOneOutcome == vec.t = "c" => (vec.exp.allowed # {} /\ vec.exp.by <= Min3(vec.v.ready, vec.v.timeout, vec.v.cancel))
NeverBlocksPastMin == vec.t = "c" => ("delivered" \in vec.exp.allowed \/ vec.exp.by = (IF vec.v.timeout <= vec.v.cancel THEN vec.v.timeout ELSE vec.v.cancel))

(* ---------------- Part 2: concurrent Process calls on writer.Sink ---------------- *)
InitConc == /\ vec = [t |-> "conc"] /\ pc = [c \in Callers |-> "start"] /\ lockHolder = 0 /\ output = <<>> /\ acks = {}
            /\ half = [c \in Callers |-> 0]
Lock(c) == /\ pc[c] = "start" /\ (IF "no_mutex" \in Dev THEN TRUE ELSE lockHolder = 0)
           /\ lockHolder' = (IF "no_mutex" \in Dev THEN lockHolder ELSE c) /\ pc' = [pc EXCEPT ![c] = "write"]
           /\ UNCHANGED <<vec, output, acks, half>>
Write(c) == /\ pc[c] = "write"
            /\ IF "no_mutex" \in Dev
               THEN /\ output' = Append(output, <<c, half[c] + 1>>) /\ half' = [half EXCEPT ![c] = @ + 1]
                    /\ pc' = [pc EXCEPT ![c] = IF half[c] = 1 THEN "unlock" ELSE "write"]
               ELSE /\ output' = output \o <<<<c, 1>>, <<c, 2>>>> /\ pc' = [pc EXCEPT ![c] = "unlock"] /\ UNCHANGED half
            /\ UNCHANGED <<vec, lockHolder, acks>>
Unlock(c) == /\ pc[c] = "unlock" /\ lockHolder' = (IF lockHolder = c THEN 0 ELSE lockHolder)
             /\ pc' = [pc EXCEPT ![c] = "done"] /\ acks' = acks \cup {c} /\ UNCHANGED <<vec, output, half>>
NextConc == \E c \in Callers : Lock(c) \/ Write(c) \/ Unlock(c)
SpecConc == InitConc /\ [][NextConc]_vars
SpecVec == InitVec /\ [][UNCHANGED vars]_vars
(* every acknowledged call's bytes are in the output exactly once and contiguous *)
Pos(c, h) == {i \in 1..Len(output) : output[i] = <<c, h>>}
AckWholeContiguousOnce == \A c \in acks : /\ Cardinality(Pos(c, 1)) = 1 /\ Cardinality(Pos(c, 2)) = 1
                                          /\ \E i \in Pos(c, 1) : i + 1 \in Pos(c, 2)
=============================================================================
