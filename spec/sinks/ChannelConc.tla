---------------------------- MODULE ChannelConc ----------------------------
(***************************************************************************)
(* sinks/channel/channel_sink.go with several Process calls in flight on   *)
(* one ChannelSink whose consumer is slow or gone.                         *)
(*                                                                         *)
(* Every call waits on three things of its own: the channel, its context   *)
(* and its own timeout.  Time is a counter; it may only advance while no   *)
(* enabled timeout / cancellation is overdue (the Go runtime fires timers  *)
(* promptly), so "a call is still blocked although its bound has passed"   *)
(* is a reachable state exactly when the design loses a wake-up.           *)
(*   Dev = {"shared_timer"}: the sink owns one timer that every call       *)
(*   re-arms and every returning call stops (a clean-up that saves the     *)
(*   allocation of time.After): one tick serves one waiter, the others     *)
(*   stay blocked.                                                         *)
(***************************************************************************)
EXTENDS Naturals, FiniteSets, TLC
CONSTANTS Callers, T, MaxNow, Consumes,   \* Consumes: how many events the consumer ever takes
          CtxAt,                          \* CtxAt[c]: instant at which c's context is done (0 = never)
          Dev
VARIABLES st, start, now, taken, timerAt
vars == <<st, start, now, taken, timerAt>>
None == 999
Init == /\ st = [c \in Callers |-> "idle"] /\ start = [c \in Callers |-> 0] /\ now = 0 /\ taken = 0 /\ timerAt = None
Shared == "shared_timer" \in Dev
Waiting == {c \in Callers : st[c] = "wait"}
Bound(c) == LET b == IF CtxAt[c] # 0 /\ CtxAt[c] < start[c] + T THEN CtxAt[c] ELSE start[c] + T
            IN IF b < start[c] THEN start[c] ELSE b      \* a context that is done already: the call returns at once
Call(c) == /\ st[c] = "idle" /\ st' = [st EXCEPT ![c] = "wait"] /\ start' = [start EXCEPT ![c] = now]
           /\ timerAt' = IF Shared THEN now + T ELSE timerAt
           /\ UNCHANGED <<now, taken>>
Return(c, how) == /\ st' = [st EXCEPT ![c] = how]
                  /\ timerAt' = IF Shared THEN None ELSE timerAt      \* deferred timer.Stop()
Deliver(c) == /\ st[c] = "wait" /\ taken < Consumes /\ taken' = taken + 1 /\ Return(c, "sent") /\ UNCHANGED <<start, now>>
Cancel(c) == /\ st[c] = "wait" /\ CtxAt[c] # 0 /\ now >= CtxAt[c] /\ Return(c, "cancelled") /\ UNCHANGED <<start, now, taken>>
Timeout(c) == /\ st[c] = "wait"
              /\ IF Shared THEN timerAt # None /\ now >= timerAt ELSE now >= start[c] + T
              /\ Return(c, "timeout") /\ UNCHANGED <<start, now, taken>>
Overdue == \E c \in Waiting : (CtxAt[c] # 0 /\ now >= CtxAt[c]) \/ (IF Shared THEN timerAt # None /\ now >= timerAt ELSE now >= start[c] + T)
Tick == /\ now < MaxNow /\ ~Overdue /\ now' = now + 1 /\ UNCHANGED <<st, start, taken, timerAt>>
Next == Tick \/ \E c \in Callers : Call(c) \/ Deliver(c) \/ Cancel(c) \/ Timeout(c)
Spec == Init /\ [][Next]_vars
(* C13 / C19: no call is blocked beyond the shorter of its timeout and its context *)
NeverBlockedPastBound == \A c \in Waiting : now <= Bound(c)
ExactlyOneOutcome == \A c \in Callers : st[c] \in {"idle", "wait", "sent", "cancelled", "timeout"}
DeliveredAreTaken == Cardinality({c \in Callers : st[c] = "sent"}) = taken
=============================================================================
