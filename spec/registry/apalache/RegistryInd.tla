---------------------------- MODULE RegistryInd ----------------------------
(***************************************************************************)
(* The reference-counting core of Registry.tla, typed for Apalache, with   *)
(* an inductive invariant: for histories of ANY length (not only up to the *)
(* depth TLC explores) a registered node's reference count equals the      *)
(* number of registered pipelines that list it, every listed node is       *)
(* registered, and therefore "in use" is exactly "listed by a registered   *)
(* pipeline" (C06) and nothing can stay pinned.                            *)
(*                                                                         *)
(*   apalache-mc check --init=IndInit --inv=IndInv --length=1 --next=Next  *)
(*   apalache-mc check --init=Init    --inv=IndInv --length=0              *)
(*                                                                         *)
(* Pipelines hold the SET of ids they list (a pipeline counts an id once,  *)
(* however often it is listed - the repaired behaviour, Dev = {}).         *)
(***************************************************************************)
EXTENDS Integers, FiniteSets

CONSTANTS
  \* @type: Set(Str);
  NIDs,
  \* @type: Set(Str);
  TPs

VARIABLES
  \* @type: Str -> Bool;
  reg,
  \* @type: Str -> Int;
  refc,
  \* @type: Str -> Bool;
  preg,
  \* @type: Str -> Set(Str);
  pids

CInit == NIDs = {"a", "m", "s", "g"} /\ TPs = {"t1p1", "t1p2", "t2p1"}

Users(n) == {tp \in TPs : preg[tp] /\ n \in pids[tp]}

Init == /\ reg = [n \in NIDs |-> FALSE] /\ refc = [n \in NIDs |-> 0]
        /\ preg = [tp \in TPs |-> FALSE] /\ pids = [tp \in TPs |-> {}]

RegisterNode(n) ==      \* (re-)registration keeps the reference count
  /\ reg' = [reg EXCEPT ![n] = TRUE]
  /\ refc' = [refc EXCEPT ![n] = IF reg[n] THEN refc[n] ELSE 0]
  /\ UNCHANGED <<preg, pids>>

RegisterPipeline(tp, S) ==      \* S: the ids listed; all must be registered; an existing entry is overwritten
  /\ S # {} /\ \A n \in S : reg[n]
  /\ preg' = [preg EXCEPT ![tp] = TRUE]
  /\ pids' = [pids EXCEPT ![tp] = S]
  /\ refc' = [n \in NIDs |->
        LET dec == IF preg[tp] /\ n \in pids[tp] /\ refc[n] > 0 THEN 1 ELSE 0
            inc == IF n \in S THEN 1 ELSE 0
        IN (refc[n] - dec) + inc]
  /\ UNCHANGED reg

RemovePipeline(tp) ==
  /\ preg' = [preg EXCEPT ![tp] = FALSE]
  /\ pids' = [pids EXCEPT ![tp] = {}]
  /\ refc' = [n \in NIDs |-> IF preg[tp] /\ n \in pids[tp] /\ refc[n] > 0 THEN refc[n] - 1 ELSE refc[n]]
  /\ UNCHANGED reg

RemovePipelineAndNodes(tp) ==
  /\ preg[tp]
  /\ preg' = [preg EXCEPT ![tp] = FALSE]
  /\ pids' = [pids EXCEPT ![tp] = {}]
  /\ reg' = [n \in NIDs |-> IF n \in pids[tp] /\ reg[n] /\ refc[n] <= 1 THEN FALSE ELSE reg[n]]
  /\ refc' = [n \in NIDs |-> IF n \in pids[tp] /\ reg[n] THEN (IF refc[n] <= 1 THEN 0 ELSE refc[n] - 1) ELSE refc[n]]

RemoveNode(n) ==
  /\ reg[n] /\ refc[n] = 0
  /\ reg' = [reg EXCEPT ![n] = FALSE]
  /\ UNCHANGED <<refc, preg, pids>>

Next == \/ \E n \in NIDs : RegisterNode(n) \/ RemoveNode(n)
        \/ \E tp \in TPs : RemovePipeline(tp) \/ RemovePipelineAndNodes(tp)
        \/ \E tp \in TPs : \E S \in SUBSET NIDs : RegisterPipeline(tp, S)

TypeOK == /\ reg \in [NIDs -> BOOLEAN] /\ preg \in [TPs -> BOOLEAN]
          /\ refc \in [NIDs -> 0..3]
          /\ pids \in [TPs -> SUBSET NIDs]
RefcMatches == \A n \in NIDs : reg[n] => refc[n] = Cardinality(Users(n))
ListedAreRegistered == \A tp \in TPs : preg[tp] => \A n \in pids[tp] : reg[n]
Tidy == \A tp \in TPs : ~preg[tp] => pids[tp] = {}
UnregisteredHaveNoRefs == \A n \in NIDs : ~reg[n] => refc[n] = 0
IndInv == TypeOK /\ RefcMatches /\ ListedAreRegistered /\ Tidy /\ UnregisteredHaveNoRefs
IndInit == TypeOK /\ IndInv
(* consequences (C06) *)
InUseIffListed == \A n \in NIDs : reg[n] => ((refc[n] > 0) <=> (Users(n) # {}))
NothingPinned == \A n \in NIDs : (reg[n] /\ Users(n) = {}) => refc[n] = 0
=============================================================================
