--------------------------- MODULE RegistryTrace ---------------------------
(***************************************************************************)
(* Concurrent clients of the Broker's registry (code -> spec).             *)
(*                                                                         *)
(* Every mutating call of the registry takes effect atomically, at one     *)
(* instant between its invocation and its response, as the sequential      *)
(* object Registry describes (the Broker's write lock).  Traces holds      *)
(* recorded histories of 2-4 goroutines calling RegisterNode,              *)
(* RegisterPipeline, RemovePipeline, RemovePipelineAndNodes, RemoveNode    *)
(* and the threshold setters on one real Broker over a small id space,     *)
(* followed by sequential probes (RemoveNode of every id tells whether it  *)
(* is in use, unused or unknown; IsAnyPipelineRegistered).  TLC searches   *)
(* for linearisation points: Lin(op) *is* the Registry action with the     *)
(* recorded arguments, enabled only when the result class it computes is   *)
(* the recorded one.  Registry's invariants are evaluated on every state   *)
(* of the matched behaviour.  Normal form: a call is linearised only when  *)
(* the next history event is a response.                                   *)
(***************************************************************************)
EXTENDS Registry, Json
TrLists == {<<"m","s">>, <<"a","m","s">>, <<"g","m","s">>, <<"a","g","m","s">>, <<"a","s">>, <<"s","m">>}
TrKind == [n \in {"a","m","s","g"} |-> CASE n = "a" -> "filter" [] n = "g" -> "filter" [] n = "m" -> "formatter" [] n = "s" -> "sink"]
TrThr == {-1, 0, 1}
Traces == ndJsonDeserialize("rconc.ndjson")
VARIABLES tr, l, pend, done
tvars == <<vars, tr, l, pend, done>>
H == Traces[tr].h
InvOf(op) == H[CHOOSE k \in 1..Len(H) : H[k].k = "inv" /\ H[k].op = op]
RespOf(op) == H[CHOOSE k \in 1..Len(H) : H[k].k = "resp" /\ H[k].op = op]

TInit == Init /\ tr \in 1..Len(Traces) /\ l = 1 /\ pend = {} /\ done = {}
RegUnch == UNCHANGED <<nodes, pipes, graphs, thr, closed, dbl, depth, last, path>>
TInv == /\ l <= Len(H) /\ H[l].k = "inv" /\ pend' = pend \cup {H[l].op} /\ l' = l + 1
        /\ RegUnch /\ UNCHANGED <<tr, done>>
Burst == l <= Len(H) /\ H[l].k = "resp"
Act(c) == CASE c.kind = "regnode" -> RegisterNode(c.n, c.pol)
            [] c.kind = "regpipe" -> RegisterPipeline(<<c.t, c.p>>, c.ids, c.pol)
            [] c.kind = "rmpipe"  -> RemovePipeline(<<c.t, c.p>>)
            [] c.kind = "rpan"    -> RemovePipelineAndNodes(<<c.t, c.p>>)
            [] c.kind = "rmnode"  -> RemoveNode(c.n)
            [] c.kind = "setthr"  -> SetThreshold(c.t, c.which, c.v)
(* IsAnyPipelineRegistered reads the registry at one instant (read lock) *)
IsAny(c) == /\ RegUnch
            /\ RespOf(c.op).r = (IF Proj.isany[c.t] THEN "t" ELSE "f")
Lin(op) == /\ Burst /\ op \in pend
           /\ LET c == InvOf(op) IN
                 IF c.kind = "isany" THEN IsAny(c)
                 ELSE Act(c) /\ last'.r = RespOf(op).r
           /\ pend' = pend \ {op} /\ done' = done \cup {op} /\ UNCHANGED <<tr, l>>
TResp == /\ l <= Len(H) /\ H[l].k = "resp" /\ H[l].op \in done
         /\ done' = done \ {H[l].op} /\ l' = l + 1 /\ RegUnch /\ UNCHANGED <<tr, pend>>
TNext == TInv \/ TResp \/ \E op \in pend : Lin(op)
TSpec == TInit /\ [][TNext]_tvars
TView == <<nodes, pipes, graphs, thr, closed, dbl, tr, l, pend, done>>
Report == (l > Len(H)) => PrintT(<<"ACCEPT", Traces[tr].id>>)
=============================================================================
