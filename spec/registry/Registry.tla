------------------------------ MODULE Registry ------------------------------
(***************************************************************************)
(* The Broker's registry as a sequential object: registered nodes with     *)
(* their overwrite policy, reference count and object version; registered  *)
(* pipelines per (event type, pipeline id) with the node ids they list,    *)
(* the object versions they were linked with and their policy; the set of  *)
(* event types that own a graph entry; per-type thresholds; the set of     *)
(* node objects that were closed.                                          *)
(*                                                                         *)
(* One action per public Broker call (broker.go).  Calls that do not       *)
(* change the registry (Send, Reopen, the getters, IsAnyPipelineRegistered)*)
(* are not actions: their outcome is a function of the state, Proj, which  *)
(* the replayer evaluates against the real Broker after every step.        *)
(*                                                                         *)
(* Dev is the set of named deviations from the intended design.  With      *)
(* Dev = {} the module describes the intended behaviour; each deviation    *)
(* re-creates one defect that the pinned tree had (DESIGN.md F7).          *)
(***************************************************************************)
EXTENDS Integers, Sequences, FiniteSets, TLC

CONSTANTS Types, PIDs, NIDs,   \* finite id spaces
          Lists,               \* candidate node-id lists for RegisterPipeline
          KindOf,              \* NIDs -> {"filter","formatter","sink","ff"}
          CloseFails,          \* subset of NIDs whose Close returns an error
          PreNodes,            \* node ids already registered (default policy) in the initial state: a prelude that
                               \* lets a bounded exploration spend its depth on pipelines rather than on RegisterNode
          ThrVals,             \* values offered to the threshold setters (negative ones must be rejected)
          MaxDepth, Dev

VARIABLES nodes, pipes, graphs, thr, closed, dbl, depth, last, path
vars == <<nodes, pipes, graphs, thr, closed, dbl, depth, last, path>>

DeviationNames == {"overwrite_leaks", "rp_keeps_refs", "count_per_occurrence", "flatten_truncates"}
ASSUME Dev \subseteq DeviationNames

TP == Types \X PIDs
Range(s) == {s[i] : i \in 1..Len(s)}
NoNode == [reg |-> FALSE, pol |-> "allow", refc |-> 0, ver |-> 0]
NoPipe == [reg |-> FALSE, ids |-> <<>>, vers |-> <<>>, pol |-> "allow"]
Eff(pol) == IF pol = "default" THEN "allow" ELSE pol

PreSeq == LET RECURSIVE S(_)
              S(T) == IF T = {} THEN <<>> ELSE LET n == CHOOSE x \in T : TRUE IN <<[a |-> "RegisterNode", n |-> n, pol |-> "default"]>> \o S(T \ {n})
          IN S(PreNodes)
Init == /\ nodes = [n \in NIDs |-> IF n \in PreNodes THEN [reg |-> TRUE, pol |-> "allow", refc |-> 0, ver |-> 1] ELSE NoNode]
        /\ pipes = [tp \in TP |-> NoPipe]
        /\ graphs = {}
        /\ thr = [t \in Types |-> [all |-> 0, sinks |-> 0]]
        /\ closed = {} /\ dbl = FALSE
        /\ depth = 0 /\ last = [a |-> "init", r |-> "ok"] /\ path = PreSeq

(* The statement's well-formedness rule restricted to linear pipelines. *)
WellFormed(ids) == /\ Len(ids) >= 2
                   /\ KindOf[ids[Len(ids)]] = "sink"
                   /\ KindOf[ids[Len(ids)-1]] \in {"formatter", "ff"}

Users(n) == {tp \in TP : pipes[tp].reg /\ n \in Range(pipes[tp].ids)}
Occ(ids, n) == Cardinality({i \in 1..Len(ids) : ids[i] = n})

(* ids reached by flatten(): the pinned tree stopped at the first repeated id *)
FirstDup(ids) == IF \E i \in 1..Len(ids) : \E j \in 1..(i-1) : ids[j] = ids[i]
                 THEN CHOOSE i \in 1..Len(ids) : /\ \E j \in 1..(i-1) : ids[j] = ids[i]
                                                 /\ \A i2 \in 1..(i-1) : ~ \E j \in 1..(i2-1) : ids[j] = ids[i2]
                 ELSE Len(ids) + 1
FlatIds(ids) == IF "flatten_truncates" \in Dev THEN {ids[i] : i \in 1..(FirstDup(ids)-1)} ELSE Range(ids)

Step(a) == /\ depth < MaxDepth /\ depth' = depth + 1 /\ last' = a
           /\ path' = Append(path, [x \in (DOMAIN a) \ {"r", "closed", "cerr"} |-> a[x]])

RegisterNode(n, pol) ==
  IF pol = "invalid" \/ (nodes[n].reg /\ nodes[n].pol = "deny")
  THEN /\ Step([a |-> "RegisterNode", n |-> n, pol |-> pol, r |-> "err"])
       /\ UNCHANGED <<nodes, pipes, graphs, thr, closed, dbl>>
  ELSE /\ nodes' = [nodes EXCEPT ![n] = [reg |-> TRUE, pol |-> Eff(pol),
                                         refc |-> IF nodes[n].reg THEN nodes[n].refc ELSE 0,
                                         ver |-> nodes[n].ver + 1]]
       /\ Step([a |-> "RegisterNode", n |-> n, pol |-> pol, r |-> "ok"])
       /\ UNCHANGED <<pipes, graphs, thr, closed, dbl>>

RegisterPipeline(tp, ids, pol) ==
  LET denied  == pipes[tp].reg /\ pipes[tp].pol = "deny"
      missing == \E n \in Range(ids) : ~nodes[n].reg
      A(r)    == [a |-> "RegisterPipeline", t |-> tp[1], p |-> tp[2], ids |-> ids, pol |-> pol, r |-> r]
  IN IF pol = "invalid"
     THEN Step(A("err")) /\ UNCHANGED <<nodes, pipes, graphs, thr, closed, dbl>>
     ELSE IF denied \/ missing \/ ~WellFormed(ids)
     THEN /\ graphs' = graphs \cup {tp[1]}      \* the graph entry is created before validation
          /\ Step(A("err")) /\ UNCHANGED <<nodes, pipes, thr, closed, dbl>>
     ELSE /\ graphs' = graphs \cup {tp[1]}
          /\ pipes' = [pipes EXCEPT ![tp] = [reg |-> TRUE, ids |-> ids,
                                             vers |-> [i \in 1..Len(ids) |-> nodes[ids[i]].ver],
                                             pol |-> Eff(pol)]]
          /\ nodes' = [n \in NIDs |->
                 LET inc == IF "count_per_occurrence" \in Dev THEN Occ(ids, n)
                            ELSE (IF n \in Range(ids) THEN 1 ELSE 0)
                     dec == IF "overwrite_leaks" \in Dev \/ ~pipes[tp].reg THEN 0
                            ELSE (IF n \in FlatIds(pipes[tp].ids) /\ nodes[n].refc > 0 THEN 1 ELSE 0)
                 IN [nodes[n] EXCEPT !.refc = (@ - dec) + inc]]
          /\ Step(A("ok")) /\ UNCHANGED <<thr, closed, dbl>>

RemovePipeline(tp) ==
  LET A(r) == [a |-> "RemovePipeline", t |-> tp[1], p |-> tp[2], r |-> r] IN
  IF tp[1] \notin graphs
  THEN Step(A("err")) /\ UNCHANGED <<nodes, pipes, graphs, thr, closed, dbl>>
  ELSE /\ pipes' = [pipes EXCEPT ![tp] = NoPipe]
       /\ nodes' = [n \in NIDs |->
              IF "rp_keeps_refs" \notin Dev /\ pipes[tp].reg /\ n \in FlatIds(pipes[tp].ids) /\ nodes[n].refc > 0
              THEN [nodes[n] EXCEPT !.refc = @ - 1] ELSE nodes[n]]
       /\ Step(A("ok")) /\ UNCHANGED <<graphs, thr, closed, dbl>>

RemovePipelineAndNodes(tp) ==
  LET A(r, c, e) == [a |-> "RPAN", t |-> tp[1], p |-> tp[2], r |-> r, closed |-> c, cerr |-> e] IN
  IF tp[1] \notin graphs \/ ~pipes[tp].reg
  THEN Step(A("false", {}, FALSE)) /\ UNCHANGED <<nodes, pipes, graphs, thr, closed, dbl>>
  ELSE LET F == FlatIds(pipes[tp].ids)
           toClose == {n \in F : nodes[n].reg /\ nodes[n].refc <= 1}
           objs == {<<n, nodes[n].ver>> : n \in toClose}
       IN /\ pipes' = [pipes EXCEPT ![tp] = NoPipe]
          /\ nodes' = [n \in NIDs |-> IF n \in toClose THEN [NoNode EXCEPT !.ver = nodes[n].ver]
                                       ELSE IF n \in F /\ nodes[n].reg THEN [nodes[n] EXCEPT !.refc = @ - 1]
                                       ELSE nodes[n]]
          /\ closed' = closed \cup objs
          /\ dbl' = (dbl \/ objs \cap closed # {})
          /\ Step(A("true", objs, toClose \cap CloseFails # {}))
          /\ UNCHANGED <<graphs, thr>>

RemoveNode(n) ==
  IF ~nodes[n].reg
  THEN Step([a |-> "RemoveNode", n |-> n, r |-> "notfound"]) /\ UNCHANGED <<nodes, pipes, graphs, thr, closed, dbl>>
  ELSE IF nodes[n].refc > 0
  THEN Step([a |-> "RemoveNode", n |-> n, r |-> "inuse"]) /\ UNCHANGED <<nodes, pipes, graphs, thr, closed, dbl>>
  ELSE /\ nodes' = [nodes EXCEPT ![n] = [NoNode EXCEPT !.ver = nodes[n].ver]]
       /\ closed' = closed \cup {<<n, nodes[n].ver>>}
       /\ dbl' = (dbl \/ <<n, nodes[n].ver>> \in closed)
       /\ Step([a |-> "RemoveNode", n |-> n, r |-> IF n \in CloseFails THEN "closeerr" ELSE "ok"])
       /\ UNCHANGED <<pipes, graphs, thr>>

SetThreshold(t, which, v) ==
  LET A(r) == [a |-> "SetThreshold", t |-> t, which |-> which, v |-> v, r |-> r] IN
  IF v < 0
  THEN Step(A("err")) /\ UNCHANGED <<nodes, pipes, graphs, thr, closed, dbl>>
  ELSE /\ thr' = [thr EXCEPT ![t][which] = v]
       /\ graphs' = graphs \cup {t}
       /\ Step(A("ok")) /\ UNCHANGED <<nodes, pipes, closed, dbl>>

Next == \/ \E n \in NIDs, pol \in {"allow", "deny", "default", "invalid"} : RegisterNode(n, pol)
        \/ \E tp \in TP, ids \in Lists, pol \in {"allow", "deny", "default", "invalid"} : RegisterPipeline(tp, ids, pol)
        \/ \E tp \in TP : RemovePipeline(tp) \/ RemovePipelineAndNodes(tp)
        \/ \E n \in NIDs : RemoveNode(n)
        \/ \E t \in Types, w \in {"all", "sinks"}, v \in ThrVals : SetThreshold(t, w, v)

Spec == Init /\ [][Next]_vars

-----------------------------------------------------------------------------
(* What a user can observe in a state through non-mutating calls.          *)
(* The replayer's harness nodes pass the event on, except sinks, which are *)
(* leaves: a traversal ends at the first node of kind sink.                *)
ProjOf(ns, ps, gs, th) ==
  LET pipesOf(t) == {tp \in TP : tp[1] = t /\ ps[tp].reg}
      full(tp) == [i \in 1..Len(ps[tp].ids) |-> <<ps[tp].ids[i], ps[tp].vers[i]>>]
      firstSink(ids) == CHOOSE i \in 1..Len(ids) : KindOf[ids[i]] = "sink" /\ \A j \in 1..(i-1) : KindOf[ids[j]] # "sink"
      trav(tp) == SubSeq(full(tp), 1, firstSink(ps[tp].ids))
  IN [deliv  |-> [t \in Types |-> {<<tp[2], trav(tp)>> : tp \in pipesOf(t)}],
      isany  |-> [t \in Types |-> pipesOf(t) # {}],
      graph  |-> [t \in Types |-> t \in gs],
      thr    |-> th,
      senderr|-> [t \in Types |-> \/ t \notin gs
                                  \/ Cardinality(pipesOf(t)) < th[t].all
                                  \/ Cardinality(pipesOf(t)) < th[t].sinks],
      reopen |-> UNION {Range(full(tp)) : tp \in {x \in TP : ps[x].reg}},
      reg    |-> [n \in NIDs |-> IF ns[n].reg THEN ns[n].ver ELSE 0],
      inuse  |-> [n \in NIDs |-> IF ~ns[n].reg THEN "notfound" ELSE IF ns[n].refc > 0 THEN "inuse" ELSE "free"]]
Proj == ProjOf(nodes, pipes, graphs, thr)

View == <<nodes, pipes, graphs, thr, closed, dbl, depth>>

-----------------------------------------------------------------------------
(* Properties                                                              *)
RefcMatches == \A n \in NIDs : nodes[n].reg => nodes[n].refc = Cardinality(Users(n))
InUseIffListed == \A n \in NIDs : nodes[n].reg => ((nodes[n].refc > 0) <=> (Users(n) # {}))
NoDoubleClose == ~dbl
ListedAreRegistered == \A tp \in TP : pipes[tp].reg => \A n \in Range(pipes[tp].ids) : nodes[n].reg
OnlyWellFormedRegistered == \A tp \in TP : pipes[tp].reg => WellFormed(pipes[tp].ids)
ThresholdsPerType == \A t \in Types : t \notin graphs => thr[t] = [all |-> 0, sinks |-> 0]

Failed(a) == a.r \in {"err", "false", "inuse", "notfound"}
FailedChangesNothing == [][Failed(last') => UNCHANGED <<nodes, pipes, thr, closed>>]_vars
ClosedExactlyUnlisted ==
  [][(last'.a = "RPAN" /\ last'.r = "true") =>
       LET tp == <<last'.t, last'.p>> IN
       /\ ~pipes'[tp].reg
       /\ {o[1] : o \in last'.closed} = {n \in Range(pipes[tp].ids) : nodes[n].reg /\ \A u \in Users(n) : u = tp}
       /\ \A n \in Range(pipes[tp].ids) : nodes'[n].reg <=> (\E u \in Users(n) : u # tp)]_vars
DenyStickyPipes ==
  [][\A tp \in TP : (pipes[tp].reg /\ pipes[tp].pol = "deny" /\ ~(last'.a \in {"RemovePipeline", "RPAN"} /\ <<last'.t, last'.p>> = tp))
        => pipes'[tp] = pipes[tp]]_vars
DenyStickyNodes ==
  [][\A n \in NIDs : (nodes[n].reg /\ nodes[n].pol = "deny" /\ nodes'[n].reg) =>
        (nodes'[n].ver = nodes[n].ver /\ nodes'[n].pol = "deny")]_vars
PolicyFollowsLastRegistration ==
  [][/\ (last'.a = "RegisterNode" /\ last'.r = "ok") => nodes'[last'.n].pol = Eff(last'.pol)
     /\ (last'.a = "RegisterPipeline" /\ last'.r = "ok") => pipes'[<<last'.t, last'.p>>].pol = Eff(last'.pol)]_vars
InvalidRejected == [][("pol" \in DOMAIN last' /\ last'.pol = "invalid") => last'.r = "err"]_vars
CapturedVersionsStable ==
  [][\A tp \in TP : (pipes[tp].reg /\ pipes'[tp].reg /\ ~(last'.a = "RegisterPipeline" /\ <<last'.t, last'.p>> = tp))
        => pipes'[tp].vers = pipes[tp].vers]_vars
NegativeThresholdRejected == [][(last'.a = "SetThreshold" /\ last'.v < 0) => (last'.r = "err" /\ thr' = thr)]_vars
ThresholdOnlyItsType ==
  [][last'.a = "SetThreshold" => \A t \in Types : t # last'.t => thr'[t] = thr[t]]_vars
=============================================================================
