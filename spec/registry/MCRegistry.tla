---------------------------- MODULE MCRegistry ----------------------------
EXTENDS Registry, Json
McLists == {<<"m","s">>, <<"a","m","s">>, <<"g","m","s">>, <<"a","a","m","s">>, <<"a","s">>}
McListsBig == McLists \cup {<<"a","g","m","s">>, <<"g","a","g","m","s">>, <<"s","m","s">>}
McKind == [n \in {"a","m","s","g"} |-> CASE n = "a" -> "filter" [] n = "g" -> "filter" [] n = "m" -> "formatter" [] n = "s" -> "sink"]
McThr == {-1, 0, 1, 2}
McNoThr == {}
\* graph export: every explored transition is printed once, with the spanning-tree
\* path of its source state (path is excluded from the VIEW)
NextE == Next /\ PrintT(ToJson([p |-> path, a |-> last', proj |-> Proj']))
SpecE == Init /\ [][NextE]_vars
=============================================================================
