--------------------------- MODULE MCRegistrySim ---------------------------
EXTENDS MCRegistry
\* simulation export: the walk is printed when it reaches MaxDepth. The history keeps the
\* raw state per step (cheap); projections are computed once, when the walk is printed.
VARIABLE hist
Out(h) == [i \in 1..Len(h) |-> [a |-> h[i].a, proj |-> ProjOf(h[i].s[1], h[i].s[2], h[i].s[3], h[i].s[4])]]
\* At MaxDepth no registry action is enabled; the single Emit step prints the walk exactly once.
Emit == /\ depth = MaxDepth /\ PrintT(ToJson(Out(hist)))
        /\ depth' = MaxDepth + 1 /\ UNCHANGED <<nodes, pipes, graphs, thr, closed, dbl, last, path, hist>>
NextS == \/ Next /\ hist' = Append(hist, [a |-> last', s |-> <<nodes', pipes', graphs', thr'>>])
         \/ Emit
InitS == Init /\ hist = <<>>
SpecS == InitS /\ [][NextS]_<<vars, hist>>
=============================================================================
