------------------------------ MODULE Validate ------------------------------
(***************************************************************************)
(* One-shot model of RegisterPipeline's acceptance decision (C05).         *)
(* A vector is a candidate definition in a registry context:               *)
(*   kinds   the node types of the listed nodes, in order (length 0..MaxLen)*)
(*   form    what is wrong with the ids, if anything                        *)
(*   pos     the position the defect applies to (0 when not positional)     *)
(*   exist   policy of an already registered pipeline with the same id/type *)
(*   pol     policy option passed with the call (always a valid one)        *)
(* SpecAccepts is the statement of the property; ImplAccepts transcribes    *)
(* Pipeline.validate, the node lookup, linkNodes and graph.doValidate.      *)
(* TLC evaluates both on every vector (each vector is one initial state).   *)
(***************************************************************************)
EXTENDS Naturals, Sequences, FiniteSets, TLC, Json

CONSTANTS MaxLen
Kinds == {"filter", "formatter", "sink", "ff", "unknown"}
Forms == {"ok", "emptypid", "emptytype", "emptynode", "unreg"}
Exist == {"none", "allow", "deny"}
Pols  == {"default", "allow", "deny"}

VARIABLE v
Vectors == { [kinds |-> ks, form |-> f, pos |-> p, exist |-> e, pol |-> pl] :
               ks \in UNION {[1..n -> Kinds] : n \in 0..MaxLen}, f \in Forms, p \in 0..MaxLen, e \in Exist, pl \in Pols }
Valid(x) == /\ (x.form \in {"emptynode", "unreg"}) <=> (x.pos > 0)
            /\ x.pos <= Len(x.kinds)
            /\ (x.pol # "default" => x.exist = "none")   \* keep the cross product small: options vary without an existing entry

SpecAccepts(x) ==
  /\ x.form = "ok"
  /\ Len(x.kinds) >= 2
  /\ x.kinds[Len(x.kinds)] = "sink"
  /\ x.kinds[Len(x.kinds) - 1] \in {"formatter", "ff"}
  /\ x.exist # "deny"

(* transcription of the implementation, step by step, first failure wins *)
ValidateOK(x) == x.form \notin {"emptypid", "emptytype", "emptynode"} /\ Len(x.kinds) > 0
PolicyOK(x)   == x.exist # "deny"
LookupOK(x)   == x.form # "unreg"
RECURSIVE DoValidate(_, _)
DoValidate(ks, i) ==   \* node i of the linked list, parent is i-1
  LET last == i = Len(ks) IN
  IF last /\ ks[i] # "sink" THEN FALSE                       \* non-sink node has no children
  ELSE IF last /\ i = 1 THEN FALSE                            \* sink node at root
  ELSE IF last /\ ks[i-1] \notin {"formatter", "ff"} THEN FALSE
  ELSE IF last THEN TRUE
  ELSE DoValidate(ks, i + 1)
ImplAccepts(x) == ValidateOK(x) /\ PolicyOK(x) /\ LookupOK(x) /\ DoValidate(x.kinds, 1)
(* does a failing call leave a graph entry behind? (observable only through getters; not demanded) *)

KindSeqs == UNION {[1..n -> Kinds] : n \in 0..MaxLen}
Init == \E ks \in KindSeqs, f \in Forms, p \in 0..MaxLen, e \in Exist, pl \in Pols :
           /\ v = [kinds |-> ks, form |-> f, pos |-> p, exist |-> e, pol |-> pl]
           /\ Valid(v)
Next == UNCHANGED v
Spec == Init /\ [][Next]_v

Agree == SpecAccepts(v) = ImplAccepts(v)
Export == PrintT(ToJson([v |-> v, accept |-> SpecAccepts(v)]))
=============================================================================
