----------------------------- MODULE KeysTrace -----------------------------
(* Validates recorded histories of the real encrypt.Filter (Rotate, rotation payloads, events)  *)
(* against Keys: the history gives invocation/response order (a global sequence number), TLC    *)
(* places the internal steps (rotation point, begin, each value read) between them and requires *)
(* every value's classified material (wrapper epoch, derived?, salt, info) to be what Keys      *)
(* produces.                                                                                    *)
EXTENDS Naturals, Sequences, FiniteSets, TLC, Json
Traces == ndJsonDeserialize("histories.ndjson")
Clients == {"c1", "c2", "c3", "c4"}
VARIABLES progs, cur, pc, idx, basew, vi, out, hist, tr, l
ProgSet == {}
ProgsOf(t) == [c \in Clients |-> IF c \in DOMAIN Traces[t].progs THEN Traces[t].progs[c] ELSE <<>>]
K == INSTANCE Keys
kvars == <<progs, cur, pc, idx, basew, vi, out, hist>>
H == Traces[tr].h
Init == /\ tr \in 1..Len(Traces) /\ l = 1
        /\ K!InitWith(ProgsOf(tr))
Same(a, b) == a.t = b.t /\ a.w = b.w /\ a.der = b.der /\ a.s = b.s /\ a.i = b.i
Consume ==
  /\ l <= Len(H)
  /\ \/ H[l].k = "inv" /\ K!Invoke(H[l].c) /\ idx[H[l].c] = H[l].n
     \/ /\ H[l].k = "resp" /\ K!Respond(H[l].c) /\ idx[H[l].c] = H[l].n
        /\ IF K!Op(H[l].c).kind = "rotate" THEN TRUE
           ELSE /\ "vals" \in DOMAIN H[l] /\ Len(out[H[l].c]) = Len(H[l].vals)
                /\ \A v \in 1..Len(H[l].vals) : Same(out[H[l].c][v], H[l].vals[v])
  /\ l' = l + 1 /\ UNCHANGED progs
Internal == /\ \E c \in Clients : K!DoRotate(c) \/ K!Begin(c) \/ K!Value(c) \/ K!End(c)
            /\ UNCHANGED <<l, progs>>
Next == (Consume \/ Internal) /\ UNCHANGED tr
Spec == Init /\ [][Next]_<<kvars, tr, l>>
Report == (l > Len(H)) => PrintT(<<"ACCEPT", Traces[tr].id>>)
Inv == K!ValueUsesMaterialInForce /\ K!LaterEventsUseNew /\ K!OneDerivedWrapperPerEvent
View == <<cur, pc, idx, basew, vi, out, tr, l>>
=============================================================================
