-------------------------------- MODULE Tags --------------------------------
(***************************************************************************)
(* encrypt.Filter on Taggable maps (filters/encrypt/map.go, taggable.go):  *)
(* a Taggable payload names some of its values by pointer ("/m/n/c") and   *)
(* gives each a classification and an operation.  Every string / []byte    *)
(* leaf of the (arbitrarily nested) map that no tag addresses is           *)
(* unclassified data; a tagged leaf is treated exactly like a class-tagged *)
(* struct field (module Policy decides the operation).  A tag whose        *)
(* pointer leads nowhere is skipped.                                       *)
(*                                                                         *)
(* One fixed tree with leaves one to four levels deep and siblings at      *)
(* every level; one initial state per vector = one or two tags on distinct *)
(* paths.  The replayer builds the tree with a canary per leaf and         *)
(* compares the form of every leaf.                                        *)
(***************************************************************************)
EXTENDS Naturals, Sequences, FiniteSets, TLC, Json
P == INSTANCE Policy WITH v <- 0

(* Pointers are RFC 6901 pointers: inside a segment "~1" stands for "/" and "~0" for "~" (decoded in that order).  The  *)
(* last two pointers address two sibling keys of map m whose spellings need escapes: KeyOf gives the key each one       *)
(* addresses.  The key of the first, decoded, is "x/y"; its raw segment "x~1y" is the spelling of the OTHER key.  A tag  *)
(* applies to the key its pointer addresses and to nothing else (F18: the filter used to mark the raw segment).          *)
PathSeq == <<"/a", "/m/b", "/m/g", "/m/n/c", "/m/n/f", "/m/n/o/d", "/m/n/o/e", "/m/zz", "/m/n/o/zz",   \* 8 and 9 lead nowhere
             "/m/x~1y", "/m/x~01y">>
KeyOf == [p \in {"/m/x~1y", "/m/x~01y"} |-> IF p = "/m/x~1y" THEN "x/y" ELSE "x~1y"]
LeafIdx == (1..7) \cup {10, 11}
LeafPaths == {PathSeq[i] : i \in LeafIdx}
ASSUME KeyOf["/m/x~1y"] # KeyOf["/m/x~01y"]   \* two distinct leaves: a tag on one says nothing about the other
Cls3 == {"public", "sensitive", "secret"}
Ops4 == {"", "redact", "encrypt", "hmac-sha256"}
Tag == [pi : 1..Len(PathSeq), cls : Cls3, op : Ops4]
CONSTANT MaxTags   \* 2 or 3
Pairs == {r \in Tag \X Tag : r[1].pi < r[2].pi}
Vectors == {<<t>> : t \in Tag} \cup {<<q[1], q[2]>> : q \in Pairs}
           \cup (IF MaxTags >= 3 THEN {<<q[1], q[2], t>> : q \in Pairs, t \in {u \in Tag : u.pi = 8}} \cup   \* a dangling third tag
                                      {<<q[1], q[2], t>> : q \in {r \in Pairs : r[2].pi < 7}, t \in {u \in Tag : u.pi = 7 /\ u.op = ""}}
                  ELSE {})

NoOv == [c \in P!Classes |-> "unset"]
TagAt(tv, p) == {i \in 1..Len(tv) : PathSeq[tv[i].pi] = p}
Exp(tv) == [p \in LeafPaths |->
              IF TagAt(tv, p) = {} THEN "redacted"
              ELSE LET t == tv[CHOOSE i \in TagAt(tv, p) : TRUE]
                   IN P!Outcome([cls |-> t.cls, op |-> t.op, ov |-> NoOv, wr |-> "present"]).leaf]

VARIABLE tv
Init == tv \in Vectors
Next == UNCHANGED tv
Spec == Init /\ [][Next]_tv
Export == PrintT(ToJson([tags |-> [i \in 1..Len(tv) |-> [path |-> PathSeq[tv[i].pi], cls |-> tv[i].cls, op |-> tv[i].op]], exp |-> Exp(tv)]))
(* C09: nothing but a leaf tagged public leaves in plaintext; a tag never weakens another leaf *)
OnlyPublicTagsArePlain == \A p \in LeafPaths : Exp(tv)[p] = "plain" => \E i \in TagAt(tv, p) : tv[i].cls = "public"
UntaggedAreRedacted == \A p \in LeafPaths : TagAt(tv, p) = {} => Exp(tv)[p] = "redacted"
(* C10: public values are preserved; C09: the tag's operation (or the class default) is what is applied *)
PublicPreserved == \A p \in LeafPaths : (\E i \in TagAt(tv, p) : tv[i].cls = "public") => Exp(tv)[p] = "plain"
TagDictates == \A p \in LeafPaths : \A i \in TagAt(tv, p) :
                  tv[i].cls # "public" =>
                     Exp(tv)[p] = (CASE tv[i].op = "redact" -> "redacted" [] tv[i].op = "encrypt" -> "encrypted" [] tv[i].op = "hmac-sha256" -> "hmac"
                                     [] OTHER -> IF tv[i].cls = "sensitive" THEN "encrypted" ELSE "redacted")
=============================================================================
