-------------------------------- MODULE Keys --------------------------------
(***************************************************************************)
(* Key material of encrypt.Filter across rotation (filter.go, wrapper.go). *)
(* The filter holds a wrapper, an HMAC salt and an HMAC info; each is       *)
(* identified by an epoch that a rotation (Filter.Rotate or a rotation     *)
(* payload) bumps.  An event                                               *)
(*   begins    - if its payload carries an event id, a per-event wrapper is*)
(*               derived from the wrapper current at that instant;         *)
(*   values    - every encrypted / HMAC-ed value reads, atomically, the    *)
(*               wrapper (or uses the per-event one), and for an HMAC the  *)
(*               salt and info (the event's own take precedence);          *)
(*   ends.                                                                 *)
(* Rotations and events of several clients interleave freely.              *)
(* 99 stands for "the event's own salt / info".                            *)
(***************************************************************************)
EXTENDS Naturals, Sequences, FiniteSets, TLC

CONSTANTS Clients, ProgSet  \* ProgSet = set of program assignments explored by Init; progs[c] = sequence of ops:
                           \*  [kind |-> "rotate", w, s, i : BOOLEAN]  or
                           \*  [kind |-> "event", evid, evsalt, evinfo : BOOLEAN, vals : sequence of "enc" | "hmac"]
VARIABLES progs, cur, pc, idx, basew, vi, out, hist
vars == <<progs, cur, pc, idx, basew, vi, out, hist>>
EV == 99
Op(c) == progs[c][idx[c]]
InitWith(P) ==
        /\ progs = P /\ cur = [w |-> 0, s |-> 0, i |-> 0]
        /\ pc = [c \in Clients |-> "idle"] /\ idx = [c \in Clients |-> 1]
        /\ basew = [c \in Clients |-> 0] /\ vi = [c \in Clients |-> 1]
        /\ out = [c \in Clients |-> <<>>] /\ hist = <<>>
Init == \E P \in ProgSet : InitWith(P)
Bump(r, f, b) == IF b THEN r[f] + 1 ELSE r[f]
(* invocation, linearisation point and response are separate steps *)
Invoke(c) == /\ pc[c] = "idle" /\ idx[c] <= Len(progs[c])
             /\ pc' = [pc EXCEPT ![c] = "invoked"]
             /\ hist' = Append(hist, [k |-> "inv", c |-> c, n |-> idx[c], at |-> cur])
             /\ UNCHANGED <<cur, idx, basew, vi, out>>
DoRotate(c) == /\ pc[c] = "invoked" /\ Op(c).kind = "rotate"
               /\ cur' = [w |-> Bump(cur, "w", Op(c).w), s |-> Bump(cur, "s", Op(c).s), i |-> Bump(cur, "i", Op(c).i)]
               /\ pc' = [pc EXCEPT ![c] = "done"] /\ UNCHANGED <<idx, basew, vi, out, hist>>
Begin(c) == /\ pc[c] = "invoked" /\ Op(c).kind = "event"
            /\ basew' = [basew EXCEPT ![c] = cur.w]       \* per-event wrapper derived from the wrapper in force now
            /\ vi' = [vi EXCEPT ![c] = 1] /\ out' = [out EXCEPT ![c] = <<>>]
            /\ pc' = [pc EXCEPT ![c] = "values"] /\ UNCHANGED <<cur, idx, hist>>
ValueRec(c) == LET o == Op(c)
                   t == o.vals[vi[c]]
                   w == IF o.evid THEN basew[c] ELSE cur.w
               IN IF t = "enc" THEN [t |-> "enc", w |-> w, der |-> o.evid, s |-> 0, i |-> 0]
                  ELSE [t |-> "hmac", w |-> w, der |-> o.evid,
                        s |-> IF o.evsalt THEN EV ELSE cur.s, i |-> IF o.evinfo THEN EV ELSE cur.i]
Value(c) == /\ pc[c] = "values" /\ vi[c] <= Len(Op(c).vals)
            /\ out' = [out EXCEPT ![c] = Append(@, ValueRec(c))]
            /\ vi' = [vi EXCEPT ![c] = @ + 1] /\ UNCHANGED <<cur, pc, idx, basew, hist>>
End(c) == /\ pc[c] = "values" /\ vi[c] > Len(Op(c).vals)
          /\ pc' = [pc EXCEPT ![c] = "done"] /\ UNCHANGED <<cur, idx, basew, vi, out, hist>>
Respond(c) == /\ pc[c] = "done"
              /\ hist' = Append(hist, [k |-> "resp", c |-> c, n |-> idx[c], at |-> cur, vals |-> IF Op(c).kind = "event" THEN out[c] ELSE <<>>])
              /\ pc' = [pc EXCEPT ![c] = "idle"] /\ idx' = [idx EXCEPT ![c] = @ + 1]
              /\ UNCHANGED <<cur, basew, vi, out>>
Next == (\E c \in Clients : Invoke(c) \/ DoRotate(c) \/ Begin(c) \/ Value(c) \/ End(c) \/ Respond(c)) /\ UNCHANGED progs
Spec == Init /\ [][Next]_vars

-----------------------------------------------------------------------------
(* C16: every value was protected with material that was in force at some instant of its event *)
InvOf(j) == CHOOSE k \in 1..j : hist[k].k = "inv" /\ hist[k].c = hist[j].c /\ hist[k].n = hist[j].n
ValueUsesMaterialInForce ==
  \A j \in 1..Len(hist) : hist[j].k = "resp" =>
     \A v \in 1..Len(hist[j].vals) :
        LET r == hist[j].vals[v]  a == hist[InvOf(j)].at  b == hist[j].at IN
        /\ r.w >= a.w /\ r.w <= b.w
        /\ (r.t = "hmac" /\ r.s # EV) => (r.s >= a.s /\ r.s <= b.s)
        /\ (r.t = "hmac" /\ r.i # EV) => (r.i >= a.i /\ r.i <= b.i)
(* an event that starts after a rotation returned never uses older material *)
LaterEventsUseNew ==
  \A j \in 1..Len(hist) : (hist[j].k = "resp" /\ hist[j].vals # <<>>) =>
     \A r \in 1..InvOf(j) : hist[r].k = "resp" =>
        \A v \in 1..Len(hist[j].vals) : hist[j].vals[v].w >= hist[r].at.w
(* the per-event wrapper is one wrapper for the whole event *)
OneDerivedWrapperPerEvent ==
  \A j \in 1..Len(hist) : hist[j].k = "resp" =>
     \A u, v \in 1..Len(hist[j].vals) : (hist[j].vals[u].der /\ hist[j].vals[v].der) => hist[j].vals[u].w = hist[j].vals[v].w
PerEventSaltInfoWin ==
  \A c \in Clients : \A v \in 1..Len(out[c]) : pc[c] = "values" =>
     (out[c][v].t = "hmac" => ((Op(c).evsalt <=> out[c][v].s = EV) /\ (Op(c).evinfo <=> out[c][v].i = EV)))
=============================================================================
