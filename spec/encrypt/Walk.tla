-------------------------------- MODULE Walk --------------------------------
(***************************************************************************)
(* encrypt.Filter's reflection walk (filters/encrypt/filter.go, map.go)    *)
(* over a grammar of payload shapes.  A shape is a sequence of type         *)
(* constructors ending in a leaf:                                          *)
(*    ptr, struct (one exported field holding the rest; the field is       *)
(*    class-tagged "secret" when the rest is a leaf), slice, map (string   *)
(*    keys) ; leaves str, bytes, strs ([]string), bytess ([][]byte).       *)
(* AsIs(s) transcribes what the walker does with the single leaf of s:      *)
(*    filtered  the leaf is reached and replaced                           *)
(*    error     Process returns an error (fails closed)                    *)
(*    leak      Process succeeds and the classified plaintext is forwarded *)
(*    panic     Process panics                                             *)
(* The property (C09) is Intended(s) \in {"filtered","error"} for every     *)
(* shape; the shapes where AsIs differs are the named deviation classes     *)
(* F9b, F9c of DESIGN.md (known findings; F9a, F9d, F12 were repaired).                            *)
(***************************************************************************)
EXTENDS Naturals, Sequences, FiniteSets, TLC, Json
CONSTANT MaxD
Ctors == {"ptr", "struct", "slice", "map"}
Leaves == {"str", "bytes", "strs", "bytess"}
IsLeaf(x) == x \in Leaves
RECURSIVE WF(_)
WF(s) == IF Len(s) = 1 THEN IsLeaf(s[1])
         ELSE /\ s[1] \in Ctors
              /\ ~(s[1] = "ptr" /\ s[2] = "ptr")
              /\ ~(s[1] = "slice" /\ IsLeaf(s[2]))
              /\ ~(s[1] = "slice" /\ s[2] = "ptr" /\ Len(s) = 3 /\ s[3] \in {"strs", "bytess", "bytes"})
              /\ WF(Tail(s))
(* []*string etc. (a slice of pointers to a leaf) is not among the statement's supported shapes,
   except []*string as the payload itself, which the filter handles explicitly *)
SlicePtrLeaf(s) == \E i \in 1..(Len(s) - 2) : s[i] = "slice" /\ s[i+1] = "ptr" /\ IsLeaf(s[i+2]) /\ ~(i = 1 /\ s[i+2] = "str")
Paths == UNION {{s \in [1..n -> Ctors \cup Leaves] : WF(s) /\ ~SlicePtrLeaf(s)} : n \in 1..(MaxD + 1)}

RECURSIVE Struct(_, _), FieldSlice(_), Tracked(_), MapSlice(_), TopSlice(_)
Struct(r, S) ==
  LET h == r[1] IN
  CASE h \in {"str", "bytes"} -> IF S THEN "filtered" ELSE "leak"
    [] h \in {"strs", "bytess"} -> "filtered"
    [] h = "ptr" -> LET r2 == Tail(r) IN
         (CASE r2[1] \in Leaves -> "filtered"
           [] r2[1] = "struct" -> Struct(Tail(r2), TRUE)
           [] r2[1] = "map" -> Tracked(Tail(r2))
           [] r2[1] = "slice" -> FieldSlice(Tail(r2)))
    [] h = "struct" -> Struct(Tail(r), S)
    [] h = "map" -> Tracked(Tail(r))
    [] h = "slice" -> FieldSlice(Tail(r))
FieldSlice(r) ==
  LET h == r[1] IN
  CASE h = "ptr" -> LET r2 == Tail(r) IN
         (CASE r2[1] = "struct" -> Struct(Tail(r2), TRUE)
           [] r2[1] = "map" -> Tracked(Tail(r2))
           [] OTHER -> "leak")
    [] h = "struct" -> Struct(Tail(r), TRUE)
    [] h = "map" -> Tracked(Tail(r))
    [] OTHER -> "leak"
Tracked(r) ==
  LET h == r[1] IN
  CASE h \in Leaves -> "filtered"
    [] h = "ptr" -> LET r2 == Tail(r) IN
         (CASE r2[1] \in Leaves -> "filtered"                  \* a pointer to the filtered value is stored back (F12 repaired)
           [] r2[1] = "struct" -> Struct(Tail(r2), TRUE)
           [] r2[1] = "map" -> Tracked(Tail(r2))
           [] r2[1] = "slice" -> MapSlice(Tail(r2)))
    [] h = "struct" -> Struct(Tail(r), TRUE)                  \* an addressable copy is filtered and stored back (F9d repaired)
    [] h = "map" -> Tracked(Tail(r))
    [] h = "slice" -> MapSlice(Tail(r))
MapSlice(r) ==
  LET h == r[1] IN
  CASE h = "ptr" -> LET r2 == Tail(r) IN
         (CASE r2[1] = "struct" -> Struct(Tail(r2), TRUE)
           [] r2[1] = "map" -> Tracked(Tail(r2))
           [] OTHER -> "leak")
    [] h = "struct" -> Struct(Tail(r), TRUE)
    [] h = "map" -> Tracked(Tail(r))
    [] OTHER -> "leak"
TopSlice(r) ==
  LET h == r[1] IN
  CASE h = "ptr" -> LET r2 == Tail(r) IN
         (CASE r2[1] = "struct" -> Struct(Tail(r2), TRUE)
           [] r2[1] = "map" -> Tracked(Tail(r2))
           [] r2[1] = "str" -> "filtered"
           [] OTHER -> "leak")
    [] h = "struct" -> Struct(Tail(r), TRUE)
    [] h = "map" -> Tracked(Tail(r))
    [] OTHER -> "leak"
AsIs(s) ==
  LET h == s[1] IN
  CASE h \in {"str", "bytes"} -> "error"
    [] h \in {"strs", "bytess"} -> "filtered"
    [] h = "ptr" -> LET t == Tail(s) IN
         (CASE t[1] \in Leaves -> "filtered"
           [] t[1] = "struct" -> Struct(Tail(t), TRUE)
           [] t[1] = "slice" -> TopSlice(Tail(t))
           [] t[1] = "map" -> Tracked(Tail(Tail(s))))          \* a map as the payload is tracked and swept (F9a repaired)
    [] h = "struct" -> Struct(Tail(s), FALSE)
    [] h = "slice" -> TopSlice(Tail(s))
    [] h = "map" -> Tracked(Tail(s))

(* the known deviation classes, by shape *)
Has2(s, a, b) == \E i \in 1..(Len(s) - 1) : s[i] = a /\ s[i+1] = b
Has3(s, a, b, C) == \E i \in 1..(Len(s) - 2) : s[i] = a /\ s[i+1] = b /\ s[i+2] \in C
ClassOf(s) ==
  CASE Has2(s, "slice", "slice") \/ Has3(s, "slice", "ptr", {"slice"}) -> "F9b"    \* slice of slices
    [] s[1] = "struct" -> "F9c"                                                    \* struct payload by value
    [] OTHER -> "other"
Intended(s) == IF AsIs(s) \in {"leak", "panic"} THEN "filtered" ELSE AsIs(s)

VARIABLE v
Init == v \in Paths
Next == UNCHANGED v
Spec == Init /\ [][Next]_v
Str(s) == LET F[i \in 0..Len(s)] == IF i = 0 THEN "" ELSE F[i-1] \o (IF i > 1 THEN "," ELSE "") \o s[i] IN F[Len(s)]
Export == PrintT(ToJson([path |-> v, asis |-> AsIs(v), intended |-> Intended(v), cls |-> IF AsIs(v) \in {"leak", "panic"} THEN ClassOf(v) ELSE "-"]))
(* C09 on the intended design; every deviation is accounted for by a named class *)
NoLeak == Intended(v) \in {"filtered", "error"}
DeviationsAreClassified == AsIs(v) \in {"leak", "panic"} => ClassOf(v) # "other"
=============================================================================
