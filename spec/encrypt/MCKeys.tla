------------------------------- MODULE MCKeys -------------------------------
EXTENDS Keys
R(w, s, i) == [kind |-> "rotate", w |-> w, s |-> s, i |-> i]
Ev(id, es, ei, vals) == [kind |-> "event", evid |-> id, evsalt |-> es, evinfo |-> ei, vals |-> vals]
ProgsA == [c \in {"a", "b", "r"} |-> CASE c = "a" -> <<Ev(FALSE, FALSE, FALSE, <<"enc", "hmac">>), Ev(TRUE, TRUE, FALSE, <<"hmac", "enc">>)>>
                                      [] c = "b" -> <<Ev(TRUE, FALSE, TRUE, <<"enc", "hmac">>)>>
                                      [] c = "r" -> <<R(TRUE, FALSE, FALSE), R(FALSE, TRUE, TRUE)>>]
ProgsB == [c \in {"a", "r"} |-> CASE c = "a" -> <<Ev(FALSE, FALSE, FALSE, <<"hmac", "hmac", "enc">>), Ev(TRUE, FALSE, FALSE, <<"enc", "hmac">>)>>
                                  [] c = "r" -> <<R(TRUE, TRUE, TRUE), R(TRUE, FALSE, FALSE), R(FALSE, TRUE, FALSE)>>]
PSetA == {ProgsA}
PSetB == {ProgsB}
=============================================================================
