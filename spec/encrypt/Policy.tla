------------------------------- MODULE Policy -------------------------------
(***************************************************************************)
(* encrypt.Filter: which operation a class tag, the defaults and the       *)
(* configured overrides dictate for a string value, and what the filter    *)
(* does when the wrapper it needs is missing or failing                    *)
(* (filters/encrypt/tag.go, filter_operation.go, classification.go and the *)
(* head of Filter.Process).  One initial state per vector.                 *)
(***************************************************************************)
EXTENDS Naturals, Sequences, FiniteSets, TLC, Json

ClsSpell == {"public", "sensitive", "secret", "Secret", "SENSITIVE", "bogus", "absent"}   \* "absent" = no class tag
OpSpell == {"absent", "", "redact", "encrypt", "hmac-sha256", "Redact", "ENCRYPT", "Hmac-Sha256", "bogus"}
Ops == {"none", "redact", "encrypt", "hmac"}
OvVal == Ops \cup {"unset"}
Wrappers == {"present", "absent", "failing"}
Classes == {"public", "sensitive", "secret"}

Vectors == {[cls |-> c, op |-> o, ov |-> ov, wr |-> w] :
              c \in ClsSpell, o \in OpSpell, ov \in [Classes -> OvVal], w \in Wrappers}
Valid(x) == x.cls = "absent" => x.op = "absent"

Lower(o) == CASE o = "Redact" -> "redact" [] o = "ENCRYPT" -> "encrypt" [] o = "Hmac-Sha256" -> "hmac-sha256" [] OTHER -> o
TagOp(o) == LET l == Lower(o) IN
            CASE l = "redact" -> "redact" [] l = "encrypt" -> "encrypt" [] l = "hmac-sha256" -> "hmac" [] OTHER -> "none"   \* unknown words fall back to the default
Cls(c) == IF c \in Classes THEN c ELSE "unknown"       \* classifications are case sensitive
Default(c) == CASE c = "public" -> "none" [] c = "sensitive" -> "encrypt" [] c = "secret" -> "redact" [] OTHER -> "redact"

(* operation applied to the value *)
Operation(x) ==
  LET c == Cls(x.cls) IN
  IF c = "public" THEN "none"                                   \* public data is never filtered
  ELSE IF c = "unknown" THEN "redact"                           \* unclassified: redact
  ELSE IF x.ov[c] # "unset" THEN x.ov[c]                        \* override beats tag
  ELSE IF TagOp(x.op) # "none" THEN TagOp(x.op)                 \* tag beats default
  ELSE Default(c)

(* the filter's effective per-class operations decide whether a wrapper is required at all *)
Eff(x, c) == IF x.ov[c] # "unset" THEN x.ov[c] ELSE Default(c)
AllNone(x) == \A c \in Classes : Eff(x, c) = "none"
NeedsWrapper(x) == \E c \in Classes : Eff(x, c) \in {"encrypt", "hmac"}

Outcome(x) ==
  IF AllNone(x) THEN [res |-> "same", leaf |-> "plain"]                                  \* nothing configured: forwarded unchanged
  ELSE IF x.wr = "absent" /\ NeedsWrapper(x) THEN [res |-> "error", leaf |-> "-"]
  ELSE LET o == Operation(x) IN
       IF o \in {"encrypt", "hmac"} /\ x.wr # "present" THEN [res |-> "error", leaf |-> "-"]   \* fails closed
       ELSE [res |-> "ok", leaf |-> CASE o = "none" -> "plain" [] o = "redact" -> "redacted" [] o = "encrypt" -> "encrypted" [] o = "hmac" -> "hmac"]

VARIABLE v
Init == v \in {x \in Vectors : Valid(x)}
Next == UNCHANGED v
Spec == Init /\ [][Next]_v
Export == PrintT(ToJson([v |-> v, exp |-> Outcome(v)]))
(* C09 *)
SecureDefault == Outcome(v).leaf = "plain" =>
                    (v.cls = "public" \/ (Cls(v.cls) # "unknown" /\ v.ov[Cls(v.cls)] = "none") \/ AllNone(v))
UnknownIsRedacted == (Cls(v.cls) = "unknown" /\ Outcome(v).res = "ok") => Outcome(v).leaf = "redacted"
OverrideBeatsTagBeatsDefault ==
  (Outcome(v).res = "ok" /\ Cls(v.cls) \in {"sensitive", "secret"}) =>
     LET c == Cls(v.cls) IN
     /\ v.ov[c] # "unset" => Operation(v) = v.ov[c]
     /\ (v.ov[c] = "unset" /\ TagOp(v.op) # "none") => Operation(v) = TagOp(v.op)
     /\ (v.ov[c] = "unset" /\ TagOp(v.op) = "none") => Operation(v) = Default(c)
FailClosed == (Operation(v) \in {"encrypt", "hmac"} /\ v.wr # "present" /\ ~AllNone(v)) => Outcome(v).res = "error"
=============================================================================
