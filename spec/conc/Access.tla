------------------------------- MODULE Access -------------------------------
(***************************************************************************)
(* Lockset discipline of the Broker and the stock nodes: every shared      *)
(* variable with, per access site, the kind of access and the locks held   *)
(* (transcribed from the code).  Two sites on one variable conflict when   *)
(* at least one writes; they are ordered when they hold a common lock in   *)
(* modes that exclude each other.  NoRace: all conflicting pairs of sites  *)
(* that can run concurrently are ordered.  Dev names the defects of the    *)
(* pinned tree (DESIGN.md F3, F4, F5, F8).                                 *)
(***************************************************************************)
EXTENDS Naturals, Sequences, FiniteSets, TLC
CONSTANT Dev
DeviationNames == {"threshold_unlocked_read", "cloudevents_signer_unlocked", "encrypt_wrapper_unlocked_read", "event_copy_reads_table_unlocked"}
L(name, mode) == <<name, mode>>      \* mode "x" exclusive, "s" shared
Site(v, id, kind, locks) == [var |-> v, id |-> id, kind |-> kind, locks |-> locks]
Sites ==
  { Site("Broker.nodes", "RegisterNode", "w", {L("Broker.lock", "x")}),
    Site("Broker.nodes", "RegisterPipeline", "w", {L("Broker.lock", "x")}),
    Site("Broker.nodes", "detachNode", "w", {L("Broker.lock", "x")}),
    Site("Broker.graphs", "Send", "r", {L("Broker.lock", "s")}),
    Site("Broker.graphs", "Reopen", "r", {L("Broker.lock", "s")}),
    Site("Broker.graphs", "RegisterPipeline", "w", {L("Broker.lock", "x")}),
    Site("Broker.graphs", "SetSuccessThreshold", "w", {L("Broker.lock", "x")}),
    Site("Broker.graphs", "IsAnyPipelineRegistered", "r", {L("Broker.lock", "s")}),
    Site("graph.roots", "Store/Delete", "w", {L("Broker.lock", "x"), L("sync.Map", "x")}),
    Site("graph.roots", "Range(process)", "r", {L("sync.Map", "s")}),
    Site("graph.thresholds", "SetSuccessThreshold", "w", {L("Broker.lock", "x"), L("graph.thresholdLock", "x")}),
    Site("graph.thresholds", "SuccessThreshold", "r", {L("Broker.lock", "s")}),
    Site("graph.thresholds", "process", "r", IF "threshold_unlocked_read" \in Dev THEN {} ELSE {L("graph.thresholdLock", "s")}),
    Site("Event.Formatted", "FormattedAs", "w", {L("Event.l", "x")}),
    Site("Event.Formatted", "Format", "r", {L("Event.l", "s")}),
    Site("Event.Formatted", "encrypt copystructure.Copy", "r", IF "event_copy_reads_table_unlocked" \in Dev THEN {} ELSE {L("Event.l", "s")}),
    Site("FileSink.f/BytesWritten/LastCreated", "Process", "w", {L("FileSink.l", "x")}),
    Site("FileSink.f/BytesWritten/LastCreated", "Reopen", "w", {L("FileSink.l", "x")}),
    Site("writer.Sink.Writer", "Process", "w", {L("writer.Sink.l", "x")}),
    Site("encrypt.Filter.Wrapper", "Rotate", "w", {L("encrypt.Filter.l", "x")}),
    Site("encrypt.Filter.Wrapper", "Process(rotation payload)", "w", {L("encrypt.Filter.l", "x")}),
    Site("encrypt.Filter.Wrapper", "Process(nil check)", "r", IF "encrypt_wrapper_unlocked_read" \in Dev THEN {} ELSE {L("encrypt.Filter.l", "s")}),
    Site("encrypt.Filter.Wrapper", "encrypt/hmacSha256", "r", {L("encrypt.Filter.l", "x")}),
    Site("gated.Filter.gated", "Process", "w", {L("gated.Filter.l", "x")}),
    Site("gated.Filter.gated", "FlushAll", "w", {L("gated.Filter.l", "x")}),
    Site("cloudevents.Signer", "Rotate", "w", IF "cloudevents_signer_unlocked" \in Dev THEN {} ELSE {L("cloudevents.l", "x")}),
    Site("cloudevents.Signer", "sign", "r", IF "cloudevents_signer_unlocked" \in Dev THEN {} ELSE {L("cloudevents.l", "s")}) }
Conflict(a, b) == a.var = b.var /\ (a.kind = "w" \/ b.kind = "w")
Ordered(a, b) == \E la \in a.locks, lb \in b.locks : la[1] = lb[1] /\ (la[2] = "x" \/ lb[2] = "x")
RacePairs == {<<p[1].var, p[1].id, p[2].id>> : p \in {q \in Sites \X Sites : Conflict(q[1], q[2]) /\ ~Ordered(q[1], q[2])}}
VARIABLE x
Init == x = 0
Next == UNCHANGED x
Spec == Init /\ [][Next]_x
NoRace == RacePairs = {}
=============================================================================
