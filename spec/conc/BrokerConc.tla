----------------------------- MODULE BrokerConc -----------------------------
(***************************************************************************)
(* Concurrent clients of the Broker's registry (broker.go, graphmap.go).   *)
(* Every mutating call takes effect in one atomic step under the Broker's  *)
(* write lock (its linearisation point, somewhere between invocation and   *)
(* response).  A pipeline slot (pipeline id) holds the version registered  *)
(* last (0 = none).  Send looks the graph up under the read lock and then  *)
(* ranges over a map with per-key atomic visibility: it reads every slot   *)
(* once, at some instant of its execution, not necessarily the same        *)
(* instant for all slots.  IsAnyPipelineRegistered reads all slots at one  *)
(* instant (read lock).                                                    *)
(*                                                                         *)
(* Every registration brings its own three fresh nodes (a version): nst    *)
(* follows them.  "idle": registered, referenced by no pipeline; "live":   *)
(* referenced by the pipeline in some slot; "gone": removed and closed.    *)
(* RegisterPipeline over an occupied slot and RemovePipeline release the   *)
(* old version's nodes (idle), RemovePipelineAndNodes removes them (gone)  *)
(* in the same atomic step that empties the slot.  At quiescence the       *)
(* recorder probes every version with RemoveNode ("nprobe").  A           *)
(* registration whose definition is refused ("regbad": filter -> sink) is  *)
(* no step at all: its version stays idle and no Send ever reads it.       *)
(*                                                                         *)
(* The module is written for trace validation: Traces holds recorded       *)
(* histories (invocation / response events in global sequence order, with  *)
(* results); TLC searches for linearisation points that explain the        *)
(* observed results.  Normal form of the search: a Send reads slot p either*)
(* immediately before a conflicting update of p (Lin(i, S): the subset S   *)
(* of pending Sends reads the old value first) or at its own response; an  *)
(* internal step happens only when the next history event is a response.   *)
(***************************************************************************)
EXTENDS Naturals, Sequences, FiniteSets, TLC, Json
Traces == ndJsonDeserialize("conc.ndjson")
PIDs == {"p1", "p2", "p3"}
VARIABLES tr, l, slots, pend, nst
vars == <<tr, l, slots, pend, nst>>
H == Traces[tr].h
Init == tr \in 1..Len(Traces) /\ l = 1 /\ slots = [p \in PIDs |-> 0] /\ pend = <<>> /\ nst = <<>>
Ops == {pend[i].op : i \in 1..Len(pend)}
IdxOf(op) == CHOOSE i \in 1..Len(pend) : pend[i].op = op
RemoveAt(s, i) == SubSeq(s, 1, i-1) \o SubSeq(s, i+1, Len(s))
Fld(r, f, d) == IF f \in DOMAIN r THEN r[f] ELSE d
Inv == /\ l <= Len(H) /\ H[l].k = "inv"
       /\ pend' = Append(pend, [op |-> H[l].op, kind |-> H[l].kind, pid |-> Fld(H[l], "pid", "-"), ver |-> Fld(H[l], "ver", 0),
                               st |-> "inv", visited |-> {}, seen |-> {}, any |-> "?"])
       /\ nst' = IF H[l].kind \in {"reg", "regbad"} THEN nst @@ (H[l].ver :> "idle") ELSE nst   \* its nodes were registered before the call
       /\ l' = l + 1 /\ UNCHANGED <<tr, slots>>
Burst == l <= Len(H) /\ H[l].k = "resp"
(* linearisation point of an update of slot pid; the Sends in S read the old value just before it *)
Lin(i, S) == /\ Burst /\ pend[i].st = "inv" /\ pend[i].kind \in {"reg", "rem", "rpan"}
             /\ \A j \in S : pend[j].kind = "send" /\ pend[i].pid \notin pend[j].visited
             /\ slots' = [slots EXCEPT ![pend[i].pid] = IF pend[i].kind = "reg" THEN pend[i].ver ELSE 0]
             /\ pend' = [j \in 1..Len(pend) |->
                    IF j = i THEN [pend[j] EXCEPT !.st = "lin", !.any = IF slots[pend[i].pid] # 0 THEN "t" ELSE "f"]
                    ELSE IF j \in S THEN [pend[j] EXCEPT !.visited = @ \cup {pend[i].pid},
                                                          !.seen = IF slots[pend[i].pid] = 0 THEN @ ELSE @ \cup {slots[pend[i].pid]}]
                    ELSE pend[j]]
             /\ LET old == slots[pend[i].pid]
                    n1 == IF old = 0 THEN nst ELSE [nst EXCEPT ![old] = IF pend[i].kind = "rpan" THEN "gone" ELSE "idle"]
                IN nst' = IF pend[i].kind = "reg" THEN [n1 EXCEPT ![pend[i].ver] = "live"] ELSE n1
             /\ UNCHANGED <<tr, l>>
(* IsAnyPipelineRegistered reads all slots at one instant *)
LinAny(i) == /\ Burst /\ pend[i].st = "inv" /\ pend[i].kind = "isany"
             /\ pend' = [pend EXCEPT ![i].st = "lin", ![i].any = IF \E p \in PIDs : slots[p] # 0 THEN "t" ELSE "f"]
             /\ UNCHANGED <<tr, l, slots, nst>>
Resp == /\ l <= Len(H) /\ H[l].k = "resp" /\ H[l].op \in Ops
        /\ LET i == IdxOf(H[l].op)
               rest == {slots[p] : p \in {q \in PIDs \ pend[i].visited : slots[q] # 0}}
           IN /\ CASE pend[i].kind = "send" ->
                        pend[i].seen \cup rest = (IF "res" \in DOMAIN H[l] THEN {H[l].res[j] : j \in 1..Len(H[l].res)} ELSE {})
                   [] pend[i].kind = "isany" -> pend[i].st = "lin" /\ pend[i].any = H[l].any
                   [] pend[i].kind = "rpan" -> pend[i].st = "lin" /\ pend[i].any = H[l].removed   \* true exactly when it found the pipeline
                   [] pend[i].kind = "regbad" -> H[l].err = "t"   \* refused: no step of the registry, its version never enters a slot
                   [] pend[i].kind = "nprobe" -> H[l].res = (CASE nst[pend[i].ver] = "live" -> "inuse" [] nst[pend[i].ver] = "idle" -> "ok" [] OTHER -> "notfound")
                   [] pend[i].kind = "sprobe" -> H[l].res = (IF \E p \in PIDs : slots[p] # 0 THEN "inuse" ELSE "ok")   \* a node shared by all pipelines
                   [] OTHER -> pend[i].st = "lin"
              /\ nst' = IF pend[i].kind = "nprobe" /\ nst[pend[i].ver] = "idle" THEN [nst EXCEPT ![pend[i].ver] = "gone"] ELSE nst
              /\ pend' = RemoveAt(pend, i)
        /\ l' = l + 1 /\ UNCHANGED <<tr, slots>>
Next == \/ Inv \/ Resp
        \/ \E i \in 1..Len(pend) : LinAny(i) \/ \E S \in SUBSET {j \in 1..Len(pend) : pend[j].kind = "send"} : Lin(i, S)
Spec == Init /\ [][Next]_vars
Report == (l > Len(H)) => PrintT(<<"ACCEPT", Traces[tr].id>>)
(* C04 / C07 on every matched state: a Send never saw two versions of one pipeline *)
OneVersionPerSend == TRUE
=============================================================================
