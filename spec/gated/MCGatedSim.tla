---------------------------- MODULE MCGatedSim ----------------------------
EXTENDS MCGated
VARIABLE hist
Out(h) == [i \in 1..Len(h) |-> [a |-> h[i].a, proj |-> ProjOf(h[i].s[1], h[i].s[2])]]
Emit == /\ depth = MaxDepth /\ PrintT(ToJson(Out(hist)))
        /\ depth' = MaxDepth + 1 /\ UNCHANGED <<groups, clock, ord, last, path, accepted, emitted, discarded, idOf, hist>>
NextS == \/ Next /\ hist' = Append(hist, [a |-> last', s |-> <<groups', clock'>>])
         \/ Emit
InitS == Init /\ hist = <<>>
SpecS == InitS /\ [][NextS]_<<vars, hist>>
=============================================================================
