------------------------------ MODULE MCGated ------------------------------
EXTENDS Gated, Json
FailsNone == {<<"none", 0>>}
FailsAll == {<<"none", 0>>, <<"compose", 1>>, <<"compose", 2>>, <<"send", 1>>, <<"send", 2>>, <<"gateable", 1>>, <<"gateable", 2>>}
NextE == Next /\ PrintT(ToJson([p |-> path, a |-> last', proj |-> Proj']))
SpecE == Init /\ [][NextE]_vars
=============================================================================
