------------------------------- MODULE Gated -------------------------------
(***************************************************************************)
(* gated.Filter (filters/gated/gated.go) as a sequential object.           *)
(*                                                                         *)
(* State: the ordered list of open groups (id, ordinals of the gated       *)
(* events in arrival order, expiry time) and a logical clock.  Each public *)
(* call is one action; its observable output is                            *)
(*   ret   what the call returned: "nil" (event withheld), "err", "same"   *)
(*         (a non-gateable event passed through) or <<"comp", ordinals>>   *)
(*   sent  the composites handed to the configured Broker, in order        *)
(* Failure injection: fail = <<kind, n>> makes the n-th ComposeFrom / Send *)
(* of this call fail, or makes the n-th ComposeFrom return a Gateable      *)
(* payload.  Dev names deviations from the intended design (DESIGN.md F1). *)
(***************************************************************************)
EXTENDS Naturals, Sequences, FiniteSets, TLC

CONSTANTS IDs,        \* gate ids
          E,          \* expiration (clock units): a group opened at t expires when clock > t + E
          BrokerSet,  \* is a Broker configured?
          MaxDepth, MaxClock, MaxEvents,
          Fails,      \* failure injections offered: subset of {<<"none",0>>, <<"compose",n>>, <<"send",n>>, <<"gateable",n>>}
          Dev

VARIABLES groups, clock, ord, depth, last, path,
          accepted, emitted, discarded, idOf    \* history (hidden from the VIEW)
vars == <<groups, clock, ord, depth, last, path, accepted, emitted, discarded, idOf>>

DeviationNames == {"expiry_first_only", "flushall_first_only"}
ASSUME Dev \subseteq DeviationNames
NoFail == <<"none", 0>>

Expired(g, clk) == clk > g.exp
RemoveAt(s, i) == SubSeq(s, 1, i-1) \o SubSeq(s, i+1, Len(s))
Range(s) == {s[i] : i \in 1..Len(s)}

(***************************************************************************)
(* OpenGates(gs, idxs, fail, c0): open the groups at positions idxs (in    *)
(* order) the way openGate does: compose, refuse Gateable composites, send *)
(* through the Broker or drop.  A failure removes the group being opened   *)
(* and stops.  c0 = number of ComposeFrom calls already made in this call. *)
(* Result: [rm  |-> positions removed, sent |-> composites sent,           *)
(*          disc |-> ordinals discarded, err |-> failed?, nc |-> composes] *)
(***************************************************************************)
(* accumulator-passing form: every level is evaluated once (TLC does not memoise LET definitions) *)
RECURSIVE OpenGates(_, _, _, _)
OpenGates(gs, idxs, fail, acc) ==
  IF idxs = <<>> THEN acc
  ELSE LET i == Head(idxs)
           c1 == acc.nc + 1
           s1 == IF BrokerSet THEN acc.ns + 1 ELSE acc.ns
       IN IF fail = <<"compose", c1>> \/ fail = <<"gateable", c1>> \/ (BrokerSet /\ fail = <<"send", s1>>)
          THEN [acc EXCEPT !.rm = @ \cup {i}, !.disc = @ \cup Range(gs[i].evs), !.err = TRUE, !.nc = c1, !.ns = s1]
          ELSE OpenGates(gs, Tail(idxs), fail,
                         [acc EXCEPT !.rm = @ \cup {i}, !.nc = c1, !.ns = s1,
                                     !.sent = IF BrokerSet THEN Append(@, gs[i].evs) ELSE @,
                                     !.disc = IF BrokerSet THEN @ ELSE @ \cup Range(gs[i].evs)])
Acc0 == [rm |-> {}, sent |-> <<>>, disc |-> {}, err |-> FALSE, nc |-> 0, ns |-> 0]

Keep(gs, rm) == LET F[i \in 0..Len(gs)] == IF i = 0 THEN <<>> ELSE IF i \in rm THEN F[i-1] ELSE Append(F[i-1], gs[i])
                IN F[Len(gs)]
IdxSeq(S, n) == SelectSeq([i \in 1..n |-> i], LAMBDA x : x \in S)

ExpiredIdx(gs, clk) ==
  LET all == {i \in 1..Len(gs) : Expired(gs[i], clk)}
  IN IF "expiry_first_only" \in Dev /\ all # {} THEN {CHOOSE i \in all : \A j \in all : i <= j} ELSE all

(* Process of a Gateable event with a non-empty id takes the filter's lock twice (gated.go): first the expiry sweep, *)
(* then gating / flushing.  Sequentially the two run back to back (ProcessF); concurrent callers may get in between  *)
(* (GatedTrace linearises SweepF and GateF separately).                                                              *)
SweepF(gs, clk, fail) == OpenGates(gs, IdxSeq(ExpiredIdx(gs, clk), Len(gs)), fail, Acc0)
(* g1: the groups after the sweep; nc: ComposeFrom calls the sweep made *)
GateF(g1, clk, o, id, flush, fail, nc) ==
  LET has == \E i \in 1..Len(g1) : g1[i].id = id
      g2 == IF has THEN g1 ELSE Append(g1, [id |-> id, evs |-> <<>>, exp |-> clk + E])
      k == CHOOSE i \in 1..Len(g2) : g2[i].id = id
      evs == Append(g2[k].evs, o)
  IN IF ~flush THEN [gs |-> [g2 EXCEPT ![k].evs = evs], ret |-> <<"nil">>, disc |-> {}]
     ELSE IF fail = <<"compose", nc + 1>>
          THEN [gs |-> RemoveAt(g2, k), ret |-> <<"err">>, disc |-> Range(evs)]
          ELSE [gs |-> RemoveAt(g2, k), ret |-> <<"comp", evs>>, disc |-> {}]
ProcessF(gs, clk, o, id, flush, fail) ==
  LET Fin(ex) ==
        IF ex.err THEN [gs |-> Keep(gs, ex.rm), ret |-> <<"err">>, sent |-> ex.sent, disc |-> ex.disc, acc |-> FALSE]
        ELSE LET r == GateF(Keep(gs, ex.rm), clk, o, id, flush, fail, ex.nc)
             IN [gs |-> r.gs, ret |-> r.ret, sent |-> ex.sent, disc |-> ex.disc \cup r.disc, acc |-> TRUE]
  IN Fin(SweepF(gs, clk, fail))

FlushAllF(gs, fail) ==
  IF gs = <<>> THEN [gs |-> gs, ret |-> <<"nil">>, sent |-> <<>>, disc |-> {}]
  ELSE IF ~BrokerSet THEN [gs |-> <<>>, ret |-> <<"nil">>, sent |-> <<>>, disc |-> UNION {Range(gs[i].evs) : i \in 1..Len(gs)}]
  ELSE LET idxs == IF "flushall_first_only" \in Dev THEN <<1>> ELSE [i \in 1..Len(gs) |-> i]
           Fin(ex) == [gs |-> Keep(gs, ex.rm), ret |-> IF ex.err THEN <<"err">> ELSE <<"nil">>, sent |-> ex.sent, disc |-> ex.disc]
       IN Fin(OpenGates(gs, idxs, fail, Acc0))

Init == /\ groups = <<>> /\ clock = 0 /\ ord = 0 /\ depth = 0
        /\ last = [a |-> "init"] /\ path = <<>>
        /\ accepted = {} /\ emitted = <<>> /\ discarded = {} /\ idOf = <<>>

Step(a) == /\ depth < MaxDepth /\ depth' = depth + 1 /\ last' = a
           /\ path' = Append(path, [x \in {"a", "id", "flush", "fail", "close"} \cap DOMAIN a |-> a[x]])

Gateable(id, flush, fail) ==
  /\ ord < MaxEvents
  /\ \E r \in {ProcessF(groups, clock, ord + 1, id, flush, fail)} :
        /\ groups' = r.gs /\ ord' = ord + 1
        /\ idOf' = Append(idOf, id)
        /\ accepted' = IF r.acc THEN accepted \cup {ord + 1} ELSE accepted
        /\ emitted' = emitted \o r.sent \o (IF r.ret[1] = "comp" THEN <<r.ret[2]>> ELSE <<>>)
        /\ discarded' = discarded \cup r.disc
        /\ Step([a |-> "ev", id |-> id, flush |-> flush, fail |-> fail, ret |-> r.ret, sent |-> r.sent])
  /\ UNCHANGED clock

NonGateable == /\ ord < MaxEvents /\ ord' = ord + 1 /\ idOf' = Append(idOf, "-")
               /\ Step([a |-> "plain", ret |-> <<"same">>, sent |-> <<>>])
               /\ UNCHANGED <<groups, clock, accepted, emitted, discarded>>
EmptyId == /\ ord < MaxEvents /\ ord' = ord + 1 /\ idOf' = Append(idOf, "")
           /\ Step([a |-> "noid", ret |-> <<"err">>, sent |-> <<>>])
           /\ UNCHANGED <<groups, clock, accepted, emitted, discarded>>
Advance == /\ clock < MaxClock /\ clock' = clock + 1 /\ Step([a |-> "adv"])
           /\ UNCHANGED <<groups, ord, accepted, emitted, discarded, idOf>>
FlushAll(close, fail) ==
  \E r \in {FlushAllF(groups, fail)} :
     /\ groups' = r.gs /\ emitted' = emitted \o r.sent /\ discarded' = discarded \cup r.disc
     /\ Step([a |-> "flushall", close |-> close, fail |-> fail, ret |-> r.ret, sent |-> r.sent])
     /\ UNCHANGED <<clock, ord, accepted, idOf>>

Next == \/ \E id \in IDs, f \in BOOLEAN, fl \in Fails : Gateable(id, f, fl)
        \/ NonGateable \/ EmptyId \/ Advance
        \/ \E c \in BOOLEAN, fl \in Fails : FlushAll(c, fl)
Spec == Init /\ [][Next]_vars
View == <<groups, clock, ord, depth>>
ViewH == <<groups, clock, ord, depth, last, accepted, emitted, discarded, idOf>>   \* design check: only the export path is hidden

(* projection = the outcome of the probes the replayer runs on copies of the history *)
RS(r) == [ret |-> r.ret, sent |-> r.sent]
ProjOf(gs, clk) == [flushall |-> RS(FlushAllF(gs, NoFail)),
                    flush |-> [id \in IDs |-> RS(ProcessF(gs, clk, 99, id, TRUE, NoFail))],
                    ngroups |-> Len(gs)]
Proj == ProjOf(groups, clock)

-----------------------------------------------------------------------------
(* C11 *)
Flat(ss) == LET F[i \in 0..Len(ss)] == IF i = 0 THEN <<>> ELSE F[i-1] \o ss[i] IN F[Len(ss)]
InGroups == UNION {Range(groups[i].evs) : i \in 1..Len(groups)}
EmittedOrds == Range(Flat(emitted))
ExactlyOnce == /\ accepted = InGroups \cup EmittedOrds \cup discarded
               /\ InGroups \cap EmittedOrds = {} /\ InGroups \cap discarded = {} /\ EmittedOrds \cap discarded = {}
               /\ Len(Flat(emitted)) = Cardinality(EmittedOrds)           \* nothing emitted twice
               /\ \A i, j \in 1..Len(groups) : i # j => groups[i].id # groups[j].id
ArrivalOrder == \A c \in 1..Len(emitted) : \A i, j \in 1..Len(emitted[c]) : i < j => emitted[c][i] < emitted[c][j]
NoMixing == /\ \A c \in 1..Len(emitted) : \A i, j \in 1..Len(emitted[c]) : idOf[emitted[c][i]] = idOf[emitted[c][j]]
            /\ \A g \in 1..Len(groups) : \A i \in 1..Len(groups[g].evs) : idOf[groups[g].evs[i]] = groups[g].id
(* a composite holds every accepted event of its id since the group was opened: no accepted ordinal of
   the same id lies between two members of a composite without being a member *)
WholeGroup == \A c \in 1..Len(emitted) : emitted[c] # <<>> =>
                 \A o \in accepted : (idOf[o] = idOf[emitted[c][1]] /\ o > emitted[c][1] /\ o < emitted[c][Len(emitted[c])]) => o \in Range(emitted[c])
DiscardOnlyForCause == [][discarded' # discarded => (~BrokerSet \/ last'.ret = <<"err">>)]_vars
PassThrough == [][last'.a = "plain" => (last'.ret = <<"same">> /\ groups' = groups)]_vars
EmptyIdRejected == [][last'.a = "noid" => (last'.ret = <<"err">> /\ groups' = groups)]_vars
(* C17 *)
NoExpiredAfterProcess == (last.a = "ev" /\ last.ret # <<"err">>) => \A i \in 1..Len(groups) : ~Expired(groups[i], clock)
EmptyAfterFlushAll == (last.a = "flushall" /\ last.ret # <<"err">>) => groups = <<>>
ExpiredOldestFirst == [][last'.a = "ev" => \A i, j \in 1..Len(last'.sent) : i < j => last'.sent[i][1] < last'.sent[j][1]]_vars
MemoryBounded == \A i \in 1..Len(groups) : groups[i].evs # <<>>
=============================================================================
