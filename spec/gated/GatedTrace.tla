----------------------------- MODULE GatedTrace -----------------------------
(***************************************************************************)
(* Concurrent callers of one gated.Filter (code -> spec).                  *)
(*                                                                         *)
(* The filter serialises Process, FlushAll and Close with one mutex, so    *)
(* every call must take effect atomically at some instant between its      *)
(* invocation and its response, as the sequential object Gated describes.  *)
(* Traces holds recorded histories: invocation / response events in the    *)
(* order a history mutex saw them; every response carries what the call    *)
(* returned and which composites it handed to the Broker (attributed to    *)
(* the calling goroutine), every invocation the failure injected into it.  *)
(* TLC searches for linearisation points: Lin(op) applies Gated's          *)
(* ProcessF / FlushAllF to the current state and is enabled only when the  *)
(* model's result equals the recorded one.  Gated's invariants are         *)
(* evaluated in every state of the matched behaviour.                      *)
(*                                                                         *)
(* Process takes the filter's lock twice - the expiry sweep, then gating / *)
(* flushing - so a Process call has two linearisation points (LinSweep,    *)
(* LinGate) and other calls may take effect in between (a FlushAll that    *)
(* finds the gate empty between another caller's sweep and its gating).    *)
(* Normal form of the search: a call is linearised only when the next      *)
(* history event is a response (moving a linearisation point later, up to  *)
(* the next response, never turns an explainable history into an           *)
(* unexplainable one).  The clock advances only while no call is in        *)
(* flight (the recorder takes a write lock for it), so "adv" is atomic.    *)
(***************************************************************************)
EXTENDS Gated, Json
Traces == ndJsonDeserialize("gconc.ndjson")
VARIABLES tr, l, pend, done, swept   \* swept[op]: ComposeFrom calls made by the sweep of a Process that has not gated yet
tvars == <<vars, tr, l, pend, done, swept>>
H == Traces[tr].h
InvOf(op) == H[CHOOSE k \in 1..Len(H) : H[k].k = "inv" /\ H[k].op = op]
RespOf(op) == H[CHOOSE k \in 1..Len(H) : H[k].k = "resp" /\ H[k].op = op]

TInit == /\ tr \in 1..Len(Traces) /\ l = 1 /\ pend = {} /\ done = {} /\ swept = <<>>
         /\ groups = <<>> /\ clock = 0 /\ ord = 0 /\ depth = 0 /\ last = [a |-> "init"] /\ path = <<>>
         /\ accepted = {} /\ emitted = <<>> /\ discarded = {}
         /\ idOf = Traces[tr].ids            \* id of every event number ("-" plain, "" empty id)

Same == UNCHANGED <<ord, depth, path, idOf, tr>>
TInv == /\ l <= Len(H) /\ H[l].k = "inv" /\ pend' = pend \cup {H[l].op} /\ l' = l + 1
        /\ UNCHANGED <<groups, clock, last, accepted, emitted, discarded, done, swept>> /\ Same
Burst == l <= Len(H) /\ H[l].k = "resp"
Matches(r, resp) == r.ret = resp.ret /\ r.sent = resp.sent

Finish(op) == pend' = pend \ {op} /\ done' = done \cup {op}
Drop(f, op) == [o \in DOMAIN f \ {op} |-> f[o]]
LinSweep(op, c) ==
  /\ op \notin DOMAIN swept
  /\ \E ex \in {SweepF(groups, clock, c.fail)} :
       /\ ex.sent = RespOf(op).sent
       /\ groups' = Keep(groups, ex.rm)
       /\ emitted' = emitted \o ex.sent /\ discarded' = discarded \cup ex.disc
       /\ IF ex.err
          THEN /\ RespOf(op).ret = <<"err">> /\ Finish(op) /\ swept' = swept
               /\ last' = [a |-> "ev", ret |-> <<"err">>, sent |-> ex.sent]
          ELSE /\ swept' = swept @@ (op :> ex.nc) /\ UNCHANGED <<pend, done>>
               /\ last' = [a |-> "sweep", ret |-> <<"-">>, sent |-> ex.sent]
  /\ UNCHANGED <<clock, accepted>>
LinGate(op, c) ==
  /\ op \in DOMAIN swept
  /\ \E r \in {GateF(groups, clock, c.ev, c.id, c.flush, c.fail, swept[op])} :
       /\ r.ret = RespOf(op).ret
       /\ groups' = r.gs
       /\ accepted' = accepted \cup {c.ev}
       /\ emitted' = emitted \o (IF r.ret[1] = "comp" THEN <<r.ret[2]>> ELSE <<>>)
       /\ discarded' = discarded \cup r.disc
       /\ last' = [a |-> "ev", ret |-> r.ret, sent |-> <<>>]
  /\ Finish(op) /\ swept' = Drop(swept, op)
  /\ UNCHANGED clock
LinFlushAll(op, c) ==
  \E r \in {FlushAllF(groups, c.fail)} :
     /\ Matches(r, RespOf(op))
     /\ groups' = r.gs /\ emitted' = emitted \o r.sent /\ discarded' = discarded \cup r.disc
     /\ last' = [a |-> "flushall", ret |-> r.ret, sent |-> r.sent]
     /\ UNCHANGED <<clock, accepted>>
LinOther(op, c) ==
  /\ CASE c.kind = "plain" -> RespOf(op).ret = <<"same">> /\ RespOf(op).sent = <<>> /\ clock' = clock
       [] c.kind = "noid"  -> RespOf(op).ret = <<"err">> /\ RespOf(op).sent = <<>> /\ clock' = clock
       [] c.kind = "adv"   -> clock' = clock + 1
  /\ last' = [a |-> c.kind, ret |-> <<"-">>, sent |-> <<>>]
  /\ UNCHANGED <<groups, accepted, emitted, discarded>>
Lin(op) == /\ Burst /\ op \in pend
           /\ LET c == InvOf(op) IN
                 CASE c.kind = "ev" -> LinSweep(op, c) \/ LinGate(op, c)
                   [] c.kind = "flushall" -> LinFlushAll(op, c) /\ Finish(op) /\ swept' = swept
                   [] OTHER -> LinOther(op, c) /\ Finish(op) /\ swept' = swept
           /\ UNCHANGED l /\ Same
TResp == /\ l <= Len(H) /\ H[l].k = "resp" /\ H[l].op \in done
         /\ done' = done \ {H[l].op} /\ l' = l + 1
         /\ UNCHANGED <<groups, clock, last, accepted, emitted, discarded, pend, swept>> /\ Same
TNext == TInv \/ TResp \/ \E op \in pend : Lin(op)
TSpec == TInit /\ [][TNext]_tvars
Report == (l > Len(H)) => PrintT(<<"ACCEPT", Traces[tr].id>>)
(* Gated's invariants that do not depend on event numbers following arrival order *)
TExactlyOnce == ExactlyOnce
TNoMixing == NoMixing
TMemoryBounded == MemoryBounded
TNoExpiredAfterProcess == NoExpiredAfterProcess
TEmptyAfterFlushAll == EmptyAfterFlushAll
=============================================================================
