#!/bin/bash
# usage: try_mutant.sh <name> <python-edit-file | patch.diff> <prop> [prop...]
# Applies an edit to a scratch worktree of /repo and runs the given checks against it (VERIF_REPO).
name=$1; edit=$2; shift 2
wt=/tmp/mut-$name
git -C /repo worktree remove --force $wt >/dev/null 2>&1; rm -rf $wt
git -C /repo worktree add -q --detach $wt HEAD || exit 2
if [[ $edit == *.diff || $edit == *.patch ]]; then (cd $wt && (git apply $edit 2>/dev/null || git apply -3 $edit)) || { echo "patch failed"; git -C /repo worktree remove --force $wt; exit 2; }
else (cd $wt && python3 $edit) || { echo "edit failed"; exit 2; }; fi
(cd $wt && export GOFLAGS=-mod=mod GOPROXY=off GOSUMDB=off GOTOOLCHAIN=local && go build ./... ) || { echo "mutant does not build"; }
if [ -n "$RUN_TESTS" ]; then (cd $wt && export GOFLAGS=-mod=mod GOPROXY=off GOSUMDB=off GOTOOLCHAIN=local && go test -count=1 ./... 2>&1 | grep -v '^ok\|no test files' | tail -5); fi
for p in "$@"; do
  echo "== $name vs $p"
  (cd /verif && VERIF_REPO=$wt bin/check $p --tier ${TIER:-quick} 2>&1 | grep -v '^  tlc\|^  built\|^  replay\|^  record' | cut -c1-260 | head -${LINES_MAX:-6})
done
git -C /repo worktree remove --force $wt; git -C /repo worktree prune
