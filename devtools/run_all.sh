#!/bin/bash
# usage: run_all.sh [tier] [seed] : runs every registered check in turn, one summary line each
tier=${1:-quick}; seed=${2:-1}
for i in $(seq -w 1 20); do
  p=C$i
  out=$(cd "$(dirname "$0")/.." && VERIF_SEED=$seed bin/check $p --tier $tier 2>&1); rc=$?
  echo "$p rc=$rc $(echo "$out" | grep -E '^(OK|VIOLATION|KNOWN-FINDING|CHECK-BROKEN)' | cut -c1-160 | tr '\n' ';')"
done
