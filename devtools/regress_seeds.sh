#!/bin/bash
# usage: regress_seeds.sh [jobs] [pattern] : runs every stored seeded change against the check of its property (quick tier)
# and writes one line per seed (DETECTED / MISSED / BROKEN) to seeded/REGRESSION.txt
jobs=${1:-6}; pat=${2:-}
cd "$(dirname "$0")/.."
out=seeded/REGRESSION.txt; tmp=$(mktemp -d /tmp/regress.XXXX)
ls seeded | grep -E "^C[0-9]{2}[a-z]?$" | grep -E "${pat:-.}" > $tmp/list
one() {
  s=$1; p=${s:0:3}
  LINES_MAX=400 devtools/try_mutant.sh r$s /verif/seeded/$s/patch.diff $p > $2/$s.log 2>&1
  if grep -q "^VIOLATION property=$p" $2/$s.log; then echo "$s DETECTED"
  elif grep -q "^OK property=$p" $2/$s.log; then echo "$s MISSED"
  else echo "$s BROKEN $(grep -E 'CHECK-BROKEN|patch failed|does not build' $2/$s.log | head -1 | cut -c1-120)"; fi
}
export -f one
cat $tmp/list | xargs -P $jobs -I{} bash -c "one {} $tmp" | tee $tmp/result
sort $tmp/result > $out
echo "detected $(grep -c DETECTED $out) missed $(grep -c MISSED $out) broken $(grep -c BROKEN $out) (commit $(git rev-parse --short HEAD), $(date -u +%FT%TZ))" >> $out
tail -1 $out
rm -rf $tmp
