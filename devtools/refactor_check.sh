#!/bin/bash
# usage: refactor_check.sh <name> <patch.diff> [tier] : all 20 checks (in parallel) against a scratch worktree with the patch;
# for behaviour-preserving patches every check must say OK
name=$1; patch=$2; tier=${3:-quick}
wt=/tmp/mut-$name
git -C /repo worktree remove --force $wt >/dev/null 2>&1; rm -rf $wt
git -C /repo worktree add -q --detach $wt HEAD || exit 2
(cd $wt && git apply $patch) || { echo "patch failed"; exit 2; }
VERIF_REPO=$wt "$(dirname "$0")/run_parallel.sh" $tier ${SEED:-1} 2>&1 | grep -v conda
git -C /repo worktree remove --force $wt; git -C /repo worktree prune
