#!/bin/bash
# usage: run_parallel.sh [tier] [seed] : runs all 20 checks at once (load test for flakiness), one summary line each
tier=${1:-quick}; seed=${2:-1}; d=$(mktemp -d /tmp/par.XXXX)
for i in $(seq -w 1 20); do
  p=C$i
  ( cd "$(dirname "$0")/.." && VERIF_SEED=$seed bin/check $p --tier $tier > $d/$p.log 2>&1; echo "$p rc=$? $(grep -E '^(OK|VIOLATION|CHECK-BROKEN)' $d/$p.log | cut -c1-200 | head -3 | tr '\n' ';')" ) &
done
wait
echo "logs in $d"
