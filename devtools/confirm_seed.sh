#!/bin/bash
# usage: confirm_seed.sh <Cxx> : confirms a sub-agent's seeded change from /tmp/seed-<Cxx> in a fresh scratch worktree:
#   existing tests pass with the change, demo fails with it and passes without it. Then stores it under /verif/seeded/<Cxx>/.
id=$1; src=${SEEDDIR:-/tmp/seed-$id}; wt=/tmp/confirm-$id
export GOFLAGS=-mod=mod GOPROXY=off GOSUMDB=off GOTOOLCHAIN=local
[ -f $src/seed/patch.diff ] || { echo "no patch"; exit 2; }
demo=$(cd $src && git status --short | grep 'zz_seed_demo_test.go' | awk '{print $2}' | head -1)
[ -n "$demo" ] || { echo "no demo test found in worktree"; exit 2; }
git -C /repo worktree remove --force $wt >/dev/null 2>&1; rm -rf $wt
git -C /repo worktree add -q --detach $wt HEAD || exit 2
cp $src/$demo $wt/$demo
pkgdir=$(dirname $demo)
moddir=.
if [[ $pkgdir == filters/encrypt* ]]; then moddir=filters/encrypt; pkgdir=${pkgdir#filters/encrypt}; pkgdir=${pkgdir#/}; [ -z "$pkgdir" ] && pkgdir=.; fi
echo "--- demo WITHOUT the change (must pass)"
(cd $wt/$moddir && timeout 300 go test -count=1 -run 'Seed' ./$pkgdir/ 2>&1 | tail -3); r0=${PIPESTATUS[0]}
(cd $wt && git apply $src/seed/patch.diff) || { echo "patch does not apply"; exit 2; }
echo "--- existing suites WITH the change (must pass; demo skipped)"
(cd $wt && timeout 900 go test -count=1 -skip 'Seed' ./... 2>&1 | grep -v 'no test files' | tail -7)
(cd $wt/filters/encrypt && timeout 900 go test -count=1 -skip 'Seed' ./... 2>&1 | grep -v 'no test files' | tail -2)
echo "--- demo WITH the change (must fail)"
(cd $wt/$moddir && timeout 300 go test -count=1 -run 'Seed' ./$pkgdir/ 2>&1 | tail -6)
mkdir -p /verif/seeded/${SEEDNAME:-$id} && cp $src/seed/patch.diff /verif/seeded/${SEEDNAME:-$id}/patch.diff && cp $src/$demo /verif/seeded/${SEEDNAME:-$id}/demo_test.go && cp $src/seed/notes.md /verif/seeded/${SEEDNAME:-$id}/notes.md 2>/dev/null
echo "$demo" > /verif/seeded/${SEEDNAME:-$id}/demo_path.txt
git -C /repo worktree remove --force $wt; git -C /repo worktree prune
